// adafacts — libTooling fact extractor for the static checks in /verif.
//
// Usage: adafacts --out facts.json --root /repo/src --root /repo/include
//                 [--exclude expected.h] file.cpp -- <compiler flags>
//
// Emits one JSON document: functions (with per-function CFG whose blocks carry
// the root statements as small expression trees with *resolved* callees),
// constexpr tables (fully evaluated), records, enums, globals, switches,
// prototypes.  See DESIGN.md Appendix A for the schema.
#include "clang/AST/ASTConsumer.h"
#include "clang/AST/ASTContext.h"
#include "clang/AST/DeclCXX.h"
#include "clang/AST/DeclFriend.h"
#include "clang/AST/DeclTemplate.h"
#include "clang/AST/ExprCXX.h"
#include "clang/AST/ParentMap.h"
#include "clang/AST/RecordLayout.h"
#include "clang/AST/RecursiveASTVisitor.h"
#include "clang/Analysis/CFG.h"
#include "clang/Basic/SourceManager.h"
#include "clang/Frontend/CompilerInstance.h"
#include "clang/Frontend/FrontendAction.h"
#include "clang/Lex/Lexer.h"
#include "clang/Tooling/CompilationDatabase.h"
#include "clang/Tooling/Tooling.h"
#include "llvm/Support/JSON.h"
#include "llvm/Support/raw_ostream.h"
#include <deque>
#include <map>
#include <set>
#include <string>
#include <vector>

using namespace clang;
namespace json = llvm::json;

static std::vector<std::string> gRoots;
static std::vector<std::string> gExclude;
static std::string gOut;

namespace {

struct Extractor {
  ASTContext &Ctx;
  SourceManager &SM;
  PrintingPolicy PP;
  json::Array Functions, Tables, Records, Enums, Globals, Switches, Protos;
  std::set<const FunctionDecl *> Emitted;
  std::deque<const FunctionDecl *> Queue;  // lambdas discovered in bodies
  std::set<const FunctionDecl *> QueuedSpecs;  // instantiated call operators of generic lambdas already queued
  std::map<const Decl *, unsigned> LocalIds;
  unsigned NextLocal = 0;
  const FunctionDecl *CurFn = nullptr;
  std::map<const Stmt *, unsigned> ElemBlock;  // CFG element -> block id
  int CurBlock = -1;

  Extractor(ASTContext &C)
      : Ctx(C), SM(C.getSourceManager()), PP(C.getLangOpts()) {
    PP.SuppressTagKeyword = true;
    PP.Bool = true;
    PP.TerseOutput = false;
  }

  // ---------------------------------------------------------------- files
  std::string fileOf(SourceLocation L) {
    if (L.isInvalid()) return "";
    SourceLocation E = SM.getExpansionLoc(L);
    return SM.getFilename(E).str();
  }
  bool firstParty(SourceLocation L) {
    std::string F = fileOf(L);
    if (F.empty()) return false;
    for (auto &X : gExclude)
      if (F.size() >= X.size() &&
          F.compare(F.size() - X.size(), X.size(), X) == 0)
        return false;
    for (auto &R : gRoots)
      if (F.compare(0, R.size(), R) == 0) return true;
    return false;
  }
  bool firstPartyDecl(const NamedDecl *D) {
    if (!firstParty(D->getLocation())) return false;
    std::string Q = D->getQualifiedNameAsString();
    if (Q.compare(0, 4, "tl::") == 0) return false;
    return true;
  }
  std::string locStr(SourceLocation L) {
    if (L.isInvalid()) return "";
    SourceLocation E = SM.getExpansionLoc(L);
    PresumedLoc P = SM.getPresumedLoc(E);
    if (P.isInvalid()) return "";
    std::string F = P.getFilename();
    return F + ":" + std::to_string(P.getLine()) + ":" +
           std::to_string(P.getColumn());
  }
  unsigned offOf(SourceLocation L) {
    if (L.isInvalid()) return 0;
    return SM.getFileOffset(SM.getExpansionLoc(L));
  }
  std::string macroOf(SourceLocation L) {
    if (!L.isMacroID()) return "";
    // outermost macro that produced this location
    SourceLocation Cur = L;
    std::string Name;
    while (Cur.isMacroID()) {
      Name = Lexer::getImmediateMacroName(Cur, SM, Ctx.getLangOpts()).str();
      if (SM.isMacroArgExpansion(Cur))
        Cur = SM.getImmediateExpansionRange(Cur).getBegin();
      else
        Cur = SM.getImmediateExpansionRange(Cur).getBegin();
    }
    return Name;
  }
  // all macro names on the expansion stack (innermost first)
  json::Array macroStack(SourceLocation L) {
    json::Array A;
    SourceLocation Cur = L;
    int guard = 0;
    while (Cur.isMacroID() && guard++ < 32) {
      if (!SM.isMacroArgExpansion(Cur))
        A.push_back(
            Lexer::getImmediateMacroName(Cur, SM, Ctx.getLangOpts()).str());
      Cur = SM.getImmediateExpansionRange(Cur).getBegin();
    }
    return A;
  }

  // ---------------------------------------------------------------- names
  std::string typeStr(QualType T) { return T.getAsString(PP); }

  std::string fnKey(const FunctionDecl *F) {
    std::string S;
    llvm::raw_string_ostream OS(S);
    // all redeclarations (and every call site, whichever redeclaration it resolved to)
    // share the first declaration's spelling of the parameter types
    F = F->getCanonicalDecl();
    if (auto *M = dyn_cast<CXXMethodDecl>(F)) {
      if (M->getParent()->isLambda()) {
        OS << "lambda@" << locStr(M->getParent()->getLocation());
        // distinguish instantiations of enclosing templates
        const DeclContext *DC = M->getParent()->getDeclContext();
        while (DC && !isa<FunctionDecl>(DC)) DC = DC->getParent();
        if (DC) OS << " in " << fnKey(cast<FunctionDecl>(DC));
        // an instantiation of a generic lambda's call operator: told apart by its parameter types
        if (M->getPrimaryTemplate()) {
          OS << " <";
          bool first = true;
          for (auto *P : M->parameters()) {
            if (!first) OS << ", ";
            first = false;
            OS << typeStr(P->getType());
          }
          OS << ">";
        }
        return OS.str();
      }
    }
    F->getNameForDiagnostic(OS, PP, true);
    OS << "(";
    bool first = true;
    // parameter types as they appear in the function *type* (top-level cv of by-value
    // parameters dropped), so that a declaration and its definition get the same key
    if (auto *FPT = F->getType()->getAs<FunctionProtoType>()) {
      for (QualType PT : FPT->param_types()) {
        if (!first) OS << ", ";
        first = false;
        OS << typeStr(PT.getUnqualifiedType());
      }
    } else {
      for (auto *P : F->parameters()) {
        if (!first) OS << ", ";
        first = false;
        OS << typeStr(P->getType());
      }
    }
    OS << ")";
    if (auto *M = dyn_cast<CXXMethodDecl>(F))
      if (M->isConst()) OS << " const";
    return OS.str();
  }
  std::string qname(const NamedDecl *D) {
    std::string S;
    llvm::raw_string_ostream OS(S);
    D->getNameForDiagnostic(OS, PP, true);
    return OS.str();
  }

  unsigned localId(const Decl *D) {
    auto It = LocalIds.find(D);
    if (It != LocalIds.end()) return It->second;
    return LocalIds[D] = NextLocal++;
  }

  // ---------------------------------------------------------------- APValue
  json::Value apv(const APValue &V, QualType T, int depth = 0) {
    switch (V.getKind()) {
      case APValue::Int: {
        const llvm::APSInt &I = V.getInt();
        if (I.isSigned() ? I.isSignedIntN(63) : I.isIntN(63))
          return json::Value((int64_t)(I.isSigned() ? I.getSExtValue()
                                                    : (int64_t)I.getZExtValue()));
        return json::Object{{"big", llvm::toString(I, 10)}};
      }
      case APValue::Float:
        return json::Value(V.getFloat().convertToDouble());
      case APValue::Array: {
        unsigned N = V.getArraySize(), Init = V.getArrayInitializedElts();
        QualType ET;
        if (auto *AT = Ctx.getAsArrayType(T)) ET = AT->getElementType();
        if (N > (1u << 18)) return json::Object{{"too_big", (int64_t)N}};
        json::Array A;
        for (unsigned i = 0; i < N; i++) {
          if (i < Init)
            A.push_back(apv(V.getArrayInitializedElt(i), ET, depth + 1));
          else if (V.hasArrayFiller())
            A.push_back(apv(V.getArrayFiller(), ET, depth + 1));
          else
            A.push_back(nullptr);
        }
        return std::move(A);
      }
      case APValue::Struct: {
        json::Object O;
        const CXXRecordDecl *RD = T.isNull() ? nullptr : T->getAsCXXRecordDecl();
        json::Array Bases;
        unsigned bi = 0;
        if (RD)
          for (auto &B : RD->bases()) {
            if (bi < V.getStructNumBases())
              Bases.push_back(apv(V.getStructBase(bi), B.getType(), depth + 1));
            bi++;
          }
        if (!Bases.empty()) O["__bases"] = std::move(Bases);
        unsigned fi = 0;
        if (RD)
          for (auto *F : RD->fields()) {
            if (fi < V.getStructNumFields())
              O[F->getNameAsString()] =
                  apv(V.getStructField(fi), F->getType(), depth + 1);
            fi++;
          }
        return std::move(O);
      }
      case APValue::LValue: {
        json::Object O;
        APValue::LValueBase B = V.getLValueBase();
        if (B.isNull()) {
          O["null"] = true;
          return std::move(O);
        }
        int64_t Off = V.getLValueOffset().getQuantity();
        if (const Expr *E = B.dyn_cast<const Expr *>()) {
          E = E->IgnoreParenImpCasts();
          if (auto *SL = dyn_cast<StringLiteral>(E)) {
            std::string Hex;
            static const char *H = "0123456789abcdef";
            for (unsigned char c : SL->getBytes()) {
              Hex.push_back(H[c >> 4]);
              Hex.push_back(H[c & 15]);
            }
            O["strhex"] = Hex;
            O["off"] = Off;
            return std::move(O);
          }
          O["expr"] = "expr";
          O["off"] = Off;
          return std::move(O);
        }
        if (const ValueDecl *D = B.dyn_cast<const ValueDecl *>()) {
          O["decl"] = qname(D);
          O["off"] = Off;
          return std::move(O);
        }
        O["other"] = true;
        return std::move(O);
      }
      case APValue::None:
      case APValue::Indeterminate:
        return nullptr;
      default:
        return json::Object{{"apkind", (int64_t)V.getKind()}};
    }
  }

  // ---------------------------------------------------------------- Expr
  std::string textOf(const Stmt *S) {
    std::string T;
    llvm::raw_string_ostream OS(T);
    S->printPretty(OS, nullptr, PP);
    OS.flush();
    if (T.size() > 400) T = T.substr(0, 400) + "...";
    return T;
  }

  static const Expr *skip(const Expr *E) {
    while (E) {
      if (auto *P = dyn_cast<ParenExpr>(E)) E = P->getSubExpr();
      else if (auto *I = dyn_cast<ImplicitCastExpr>(E)) E = I->getSubExpr();
      else if (auto *M = dyn_cast<MaterializeTemporaryExpr>(E)) E = M->getSubExpr();
      else if (auto *W = dyn_cast<ExprWithCleanups>(E)) E = W->getSubExpr();
      else if (auto *B = dyn_cast<CXXBindTemporaryExpr>(E)) E = B->getSubExpr();
      else if (auto *C = dyn_cast<ConstantExpr>(E)) E = C->getSubExpr();
      else if (auto *S = dyn_cast<SubstNonTypeTemplateParmExpr>(E)) E = S->getReplacement();
      else if (auto *D = dyn_cast<CXXDefaultArgExpr>(E)) E = D->getExpr();
      else if (auto *D = dyn_cast<CXXDefaultInitExpr>(E)) E = D->getExpr();
      else break;
    }
    return E;
  }

  std::string paramMode(QualType PT) {
    if (PT->isLValueReferenceType()) {
      QualType P = PT->getPointeeType();
      return P.isConstQualified() ? "cref" : "ref";
    }
    if (PT->isRValueReferenceType()) return "rref";
    if (PT->isPointerType()) {
      QualType P = PT->getPointeeType();
      return P.isConstQualified() ? "cptr" : "ptr";
    }
    return "val";
  }

  void addCallee(json::Object &O, const FunctionDecl *FD) {
    if (!FD) return;
    O["callee"] = fnKey(FD);
    O["name"] = FD->getNameAsString();
    O["qname"] = FD->getQualifiedNameAsString();
    if (auto *M = dyn_cast<CXXMethodDecl>(FD)) {
      O["method"] = true;
      O["const_method"] = M->isConst();
      if (M->isVirtual()) O["virtual"] = true;
      if (M->isStatic()) O["static_method"] = true;
      O["cls"] = qname(M->getParent());
    }
    if (FD->isConstexpr()) O["constexpr"] = true;
    if (FD->isNoReturn()) O["noreturn"] = true;
    O["fp"] = firstParty(FD->getLocation());
    json::Array PM;
    for (auto *P : FD->parameters()) PM.push_back(paramMode(P->getType()));
    O["pm"] = std::move(PM);
    if (FD->getBuiltinID()) O["builtin"] = true;
  }

  // block in which (a wrapper of) E0 is evaluated as a CFG element, or -1
  int elemBlockOf(const Expr *E) {
    while (E) {
      auto It = ElemBlock.find(E);
      if (It != ElemBlock.end()) return (int)It->second;
      const Expr *N = nullptr;
      if (auto *P = dyn_cast<ParenExpr>(E)) N = P->getSubExpr();
      else if (auto *I = dyn_cast<ImplicitCastExpr>(E)) N = I->getSubExpr();
      else if (auto *M = dyn_cast<MaterializeTemporaryExpr>(E)) N = M->getSubExpr();
      else if (auto *W = dyn_cast<ExprWithCleanups>(E)) N = W->getSubExpr();
      else if (auto *B = dyn_cast<CXXBindTemporaryExpr>(E)) N = B->getSubExpr();
      else if (auto *C = dyn_cast<ConstantExpr>(E)) N = C->getSubExpr();
      else break;
      E = N;
    }
    return -1;
  }

  json::Value ex(const Expr *E0, int depth = 0) {
    json::Value V = ex1(E0, depth);
    if (depth > 0 && CurBlock >= 0 && E0) {
      int B = elemBlockOf(E0);
      if (B >= 0 && B != CurBlock)
        if (auto *O = V.getAsObject()) (*O)["else"] = (int64_t)B;
    }
    return V;
  }

  json::Value ex1(const Expr *E0, int depth = 0) {
    const Expr *E = skip(E0);
    if (!E) return nullptr;
    json::Object O;
    if (depth > 60) {
      O["k"] = "other";
      O["cls"] = "TooDeep";
      return std::move(O);
    }
    QualType T = E->getType();
    if (auto *IL = dyn_cast<IntegerLiteral>(E)) {
      O["k"] = "lit";
      llvm::APInt V = IL->getValue();
      if (V.isIntN(63)) O["v"] = (int64_t)V.getZExtValue();
      else O["v"] = llvm::toString(V, 10, false);
      return std::move(O);
    }
    if (auto *CL = dyn_cast<CharacterLiteral>(E)) {
      O["k"] = "lit";
      O["v"] = (int64_t)(int8_t)CL->getValue();
      O["chr"] = true;
      return std::move(O);
    }
    if (auto *BL = dyn_cast<CXXBoolLiteralExpr>(E)) {
      O["k"] = "lit";
      O["v"] = BL->getValue();
      return std::move(O);
    }
    if (isa<CXXNullPtrLiteralExpr>(E) || isa<GNUNullExpr>(E)) {
      O["k"] = "lit";
      O["v"] = nullptr;
      O["null"] = true;
      return std::move(O);
    }
    if (auto *SL = dyn_cast<StringLiteral>(E)) {
      O["k"] = "lit";
      std::string B = SL->getBytes().str();
      bool ascii = true;
      for (unsigned char c : B)
        if (c >= 0x80 || c == 0) ascii = false;
      if (ascii && SL->getCharByteWidth() == 1) O["v"] = B;
      else {
        std::string Hex;
        static const char *H = "0123456789abcdef";
        for (unsigned char c : B) { Hex.push_back(H[c >> 4]); Hex.push_back(H[c & 15]); }
        O["hex"] = Hex;
        O["v"] = nullptr;
      }
      O["str"] = true;
      return std::move(O);
    }
    if (auto *FL = dyn_cast<FloatingLiteral>(E)) {
      O["k"] = "lit";
      O["v"] = FL->getValueAsApproximateDouble();
      return std::move(O);
    }
    if (isa<CXXThisExpr>(E)) {
      O["k"] = "this";
      return std::move(O);
    }
    if (auto *DR = dyn_cast<DeclRefExpr>(E)) {
      const ValueDecl *D = DR->getDecl();
      O["k"] = "ref";
      O["name"] = D->getNameAsString();
      if (auto *VD = dyn_cast<VarDecl>(D)) {
        if (isa<ParmVarDecl>(VD)) {
          O["kind"] = "param";
          O["id"] = (int64_t)localId(VD);
        } else if (VD->hasGlobalStorage()) {
          O["kind"] = VD->isStaticLocal() ? "static_local" : "global";
          O["qname"] = VD->getQualifiedNameAsString();
        } else {
          O["kind"] = "local";
          O["id"] = (int64_t)localId(VD);
        }
        if (VD->getType()->isReferenceType()) O["isref"] = true;
        // constant value, when the front end knows it
        if (VD->getType().isConstQualified() || VD->isConstexpr()) {
          if (!VD->getType()->isDependentType() && VD->hasInit() &&
              !VD->getInit()->isValueDependent()) {
            if (const APValue *AV = VD->evaluateValue())
              if (AV->isInt()) {
                const llvm::APSInt &I = AV->getInt();
                if (I.isSigned() ? I.isSignedIntN(63) : I.isIntN(63))
                  O["cv"] = I.isSigned() ? I.getSExtValue() : (int64_t)I.getZExtValue();
              }
          }
        }
      } else if (auto *EC = dyn_cast<EnumConstantDecl>(D)) {
        O["kind"] = "enumerator";
        O["qname"] = EC->getQualifiedNameAsString();
        const llvm::APSInt &I = EC->getInitVal();
        O["cv"] = I.isSigned() ? I.getSExtValue() : (int64_t)I.getZExtValue();
      } else if (auto *FD = dyn_cast<FunctionDecl>(D)) {
        O["kind"] = "function";
        O["callee"] = fnKey(FD);
        O["qname"] = FD->getQualifiedNameAsString();
      } else if (isa<BindingDecl>(D)) {
        O["kind"] = "local";
        O["id"] = (int64_t)localId(D);
      } else {
        O["kind"] = "other";
      }
      O["ty"] = typeStr(T);
      return std::move(O);
    }
    if (auto *ME = dyn_cast<MemberExpr>(E)) {
      O["k"] = "member";
      O["base"] = ex(ME->getBase(), depth + 1);
      O["field"] = ME->getMemberDecl()->getNameAsString();
      if (ME->isArrow()) O["arrow"] = true;
      O["ty"] = typeStr(T);
      if (auto *FD = dyn_cast<FieldDecl>(ME->getMemberDecl()))
        O["cls"] = qname(FD->getParent());
      else if (auto *VD = dyn_cast<VarDecl>(ME->getMemberDecl())) {
        O["static_member"] = VD->getQualifiedNameAsString();
      }
      return std::move(O);
    }
    if (auto *OC = dyn_cast<CXXOperatorCallExpr>(E)) {
      O["k"] = "call";
      O["op"] = getOperatorSpelling(OC->getOperator());
      const FunctionDecl *FD = OC->getDirectCallee();
      addCallee(O, FD);
      json::Array Args;
      bool isMember = FD && isa<CXXMethodDecl>(FD) &&
                      !cast<CXXMethodDecl>(FD)->isStatic();
      unsigned i = 0;
      for (auto *A : OC->arguments()) {
        if (i == 0 && isMember) O["recv"] = ex(A, depth + 1);
        else Args.push_back(ex(A, depth + 1));
        i++;
      }
      O["args"] = std::move(Args);
      O["ty"] = typeStr(T);
      O["loc"] = locStr(E->getBeginLoc());
      return std::move(O);
    }
    if (auto *MC = dyn_cast<CXXMemberCallExpr>(E)) {
      O["k"] = "call";
      const FunctionDecl *FD = MC->getDirectCallee();
      if (!FD) FD = MC->getMethodDecl();
      addCallee(O, FD);
      if (const Expr *R = MC->getImplicitObjectArgument())
        O["recv"] = ex(R, depth + 1);
      if (auto *ME = dyn_cast<MemberExpr>(skip(MC->getCallee())))
        if (ME->isArrow()) O["arrow"] = true;
      json::Array Args;
      for (auto *A : MC->arguments()) Args.push_back(ex(A, depth + 1));
      O["args"] = std::move(Args);
      O["ty"] = typeStr(T);
      O["loc"] = locStr(E->getBeginLoc());
      return std::move(O);
    }
    if (auto *CE = dyn_cast<CallExpr>(E)) {
      O["k"] = "call";
      const FunctionDecl *FD = CE->getDirectCallee();
      if (FD) addCallee(O, FD);
      else O["indirect"] = ex(CE->getCallee(), depth + 1);
      json::Array Args;
      for (auto *A : CE->arguments()) Args.push_back(ex(A, depth + 1));
      O["args"] = std::move(Args);
      O["ty"] = typeStr(T);
      O["loc"] = locStr(E->getBeginLoc());
      return std::move(O);
    }
    if (auto *CC = dyn_cast<CXXConstructExpr>(E)) {
      const CXXConstructorDecl *CD = CC->getConstructor();
      // elidable / plain copy-move of a single argument: keep, but mark
      O["k"] = "construct";
      O["ty"] = typeStr(T);
      O["ctor"] = CD->isCopyConstructor() ? "copy"
                  : CD->isMoveConstructor() ? "move"
                  : CD->isDefaultConstructor() ? "default" : "other";
      O["callee"] = fnKey(CD);
      O["fp"] = firstParty(CD->getLocation());
      json::Array PM;
      for (auto *P : CD->parameters()) PM.push_back(paramMode(P->getType()));
      O["pm"] = std::move(PM);
      json::Array Args;
      for (auto *A : CC->arguments()) Args.push_back(ex(A, depth + 1));
      O["args"] = std::move(Args);
      O["loc"] = locStr(E->getBeginLoc());
      return std::move(O);
    }
    if (auto *UO = dyn_cast<UnaryOperator>(E)) {
      O["k"] = "un";
      O["op"] = UnaryOperator::getOpcodeStr(UO->getOpcode()).str();
      if (UO->isPostfix()) O["postfix"] = true;
      O["e"] = ex(UO->getSubExpr(), depth + 1);
      O["ty"] = typeStr(T);
      return std::move(O);
    }
    if (auto *BO = dyn_cast<BinaryOperator>(E)) {
      if (BO->isAssignmentOp()) {
        O["k"] = "assign";
        O["op"] = BO->getOpcodeStr().str();
        O["lhs"] = ex(BO->getLHS(), depth + 1);
        O["rhs"] = ex(BO->getRHS(), depth + 1);
      } else {
        O["k"] = "bin";
        O["op"] = BO->getOpcodeStr().str();
        O["l"] = ex(BO->getLHS(), depth + 1);
        O["r"] = ex(BO->getRHS(), depth + 1);
      }
      O["ty"] = typeStr(T);
      O["loc"] = locStr(BO->getOperatorLoc());
      return std::move(O);
    }
    if (auto *CO = dyn_cast<ConditionalOperator>(E)) {
      O["k"] = "cond";
      O["c"] = ex(CO->getCond(), depth + 1);
      O["t"] = ex(CO->getTrueExpr(), depth + 1);
      O["f"] = ex(CO->getFalseExpr(), depth + 1);
      O["ty"] = typeStr(T);
      return std::move(O);
    }
    if (auto *AS = dyn_cast<ArraySubscriptExpr>(E)) {
      O["k"] = "index";
      O["base"] = ex(AS->getBase(), depth + 1);
      O["idx"] = ex(AS->getIdx(), depth + 1);
      O["ty"] = typeStr(T);
      O["loc"] = locStr(E->getBeginLoc());
      return std::move(O);
    }
    if (auto *EC = dyn_cast<ExplicitCastExpr>(E)) {
      O["k"] = "cast";
      O["ty"] = typeStr(EC->getTypeAsWritten());
      O["e"] = ex(EC->getSubExpr(), depth + 1);
      if (isa<CXXReinterpretCastExpr>(EC)) O["reinterpret"] = true;
      if (isa<CXXConstCastExpr>(EC)) O["constcast"] = true;
      return std::move(O);
    }
    if (auto *NE = dyn_cast<CXXNewExpr>(E)) {
      O["k"] = "new";
      O["ty"] = typeStr(NE->getAllocatedType());
      O["array"] = NE->isArray();
      if (NE->isArray() && NE->getArraySize())
        O["size"] = ex(*NE->getArraySize(), depth + 1);
      if (NE->getInitializer()) O["init"] = ex(NE->getInitializer(), depth + 1);
      O["loc"] = locStr(E->getBeginLoc());
      return std::move(O);
    }
    if (auto *DE = dyn_cast<CXXDeleteExpr>(E)) {
      O["k"] = "delete";
      O["array"] = DE->isArrayForm();
      O["e"] = ex(DE->getArgument(), depth + 1);
      O["ty"] = typeStr(DE->getDestroyedType());
      O["loc"] = locStr(E->getBeginLoc());
      return std::move(O);
    }
    if (auto *LE = dyn_cast<LambdaExpr>(E)) {
      O["k"] = "lambda";
      const CXXMethodDecl *Op = LE->getCallOperator();
      if (Op) {
        O["fn"] = fnKey(Op);
        if (Op->hasBody() && !Op->isDependentContext()) Queue.push_back(Op);
        // generic lambda ([](const auto& x) {...}): its call operator is a template; the bodies that exist are the
        // specialisations the algorithms it is handed to have instantiated
        if (const FunctionTemplateDecl *FT = Op->getDescribedFunctionTemplate()) {
          json::Array Insts;
          for (const FunctionDecl *Spec : FT->specializations()) {
            if (Spec->hasBody() && !Spec->isDependentContext() && QueuedSpecs.insert(Spec->getCanonicalDecl()).second) {
              Queue.push_back(Spec);
            }
            if (Spec->hasBody() && !Spec->isDependentContext()) Insts.push_back(fnKey(Spec));
          }
          O["instances"] = std::move(Insts);
        }
      }
      json::Array Caps;
      for (auto &C : LE->captures()) {
        json::Object CO;
        if (C.capturesThis()) CO["this"] = true;
        else if (C.capturesVariable()) {
          CO["name"] = C.getCapturedVar()->getNameAsString();
          CO["id"] = (int64_t)localId(C.getCapturedVar());
          CO["byref"] = C.getCaptureKind() == LCK_ByRef;
        }
        Caps.push_back(std::move(CO));
      }
      O["captures"] = std::move(Caps);
      return std::move(O);
    }
    if (auto *IL = dyn_cast<InitListExpr>(E)) {
      O["k"] = "initlist";
      json::Array A;
      for (auto *I : IL->inits()) A.push_back(ex(I, depth + 1));
      O["elems"] = std::move(A);
      O["ty"] = typeStr(T);
      return std::move(O);
    }
    if (auto *TE = dyn_cast<CXXThrowExpr>(E)) {
      O["k"] = "throw";
      if (TE->getSubExpr()) O["e"] = ex(TE->getSubExpr(), depth + 1);
      O["loc"] = locStr(E->getBeginLoc());
      return std::move(O);
    }
    if (auto *UE = dyn_cast<UnaryExprOrTypeTraitExpr>(E)) {
      Expr::EvalResult R;
      if (!E->isValueDependent() && E->EvaluateAsInt(R, Ctx)) {
        O["k"] = "lit";
        O["v"] = (int64_t)R.Val.getInt().getZExtValue();
        O["sizeof"] = true;
        return std::move(O);
      }
      (void)UE;
    }
    if (auto *SI = dyn_cast<CXXScalarValueInitExpr>(E)) {
      (void)SI;
      O["k"] = "lit";
      O["v"] = 0;
      O["valueinit"] = true;
      return std::move(O);
    }
    if (auto *RB = dyn_cast<CXXRewrittenBinaryOperator>(E)) {
      return ex(RB->getSemanticForm(), depth + 1);
    }
    if (isa<ImplicitValueInitExpr>(E)) {
      O["k"] = "lit";
      O["v"] = 0;
      O["valueinit"] = true;
      return std::move(O);
    }
    if (auto *OV = dyn_cast<OpaqueValueExpr>(E)) {
      if (OV->getSourceExpr()) return ex(OV->getSourceExpr(), depth + 1);
    }
    if (auto *SL = dyn_cast<CXXStdInitializerListExpr>(E)) {
      return ex(SL->getSubExpr(), depth + 1);
    }
    if (auto *CI = dyn_cast<CXXInheritedCtorInitExpr>(E)) {
      (void)CI;
    }
    if (auto *PE = dyn_cast<CXXPseudoDestructorExpr>(E)) {
      (void)PE;
    }
    O["k"] = "other";
    O["cls"] = E->getStmtClassName();
    O["ty"] = typeStr(T);
    O["text"] = textOf(E);
    json::Array Kids;
    for (const Stmt *C : E->children())
      if (auto *CE = dyn_cast_or_null<Expr>(C)) Kids.push_back(ex(CE, depth + 1));
    O["kids"] = std::move(Kids);
    return std::move(O);
  }

  // ---------------------------------------------------------------- stmts
  json::Object rootStmt(const Stmt *S) {
    json::Object O;
    O["loc"] = locStr(S->getBeginLoc());
    O["off"] = (int64_t)offOf(S->getBeginLoc());
    O["end"] = (int64_t)offOf(S->getEndLoc());
    O["file"] = fileOf(S->getBeginLoc());
    if (S->getBeginLoc().isMacroID()) O["macros"] = macroStack(S->getBeginLoc());
    O["text"] = textOf(S);
    if (auto *DS = dyn_cast<DeclStmt>(S)) {
      O["k"] = "decl";
      json::Array Vs;
      for (auto *D : DS->decls()) {
        if (auto *VD = dyn_cast<VarDecl>(D)) {
          json::Object V;
          V["name"] = VD->getNameAsString();
          V["id"] = (int64_t)localId(VD);
          V["ty"] = typeStr(VD->getType());
          if (VD->isStaticLocal()) {
            V["static"] = true;
            V["qname"] = VD->getQualifiedNameAsString();
          }
          if (VD->hasInit()) V["init"] = ex(VD->getInit());
          if (auto *DD = dyn_cast<DecompositionDecl>(VD)) {
            json::Array Bs;
            for (auto *B : DD->bindings()) {
              json::Object BO;
              BO["name"] = B->getNameAsString();
              BO["id"] = (int64_t)localId(B);
              Bs.push_back(std::move(BO));
            }
            V["bindings"] = std::move(Bs);
          }
          Vs.push_back(std::move(V));
        }
      }
      O["vars"] = std::move(Vs);
      return O;
    }
    if (auto *RS = dyn_cast<ReturnStmt>(S)) {
      O["k"] = "return";
      if (RS->getRetValue()) O["e"] = ex(RS->getRetValue());
      return O;
    }
    if (auto *E = dyn_cast<Expr>(S)) {
      O["k"] = "expr";
      O["e"] = ex(E);
      return O;
    }
    O["k"] = "stmt";
    O["cls"] = S->getStmtClassName();
    return O;
  }

  // is S nested (as a sub-expression) in another element of the same block?
  void emitFunction(const FunctionDecl *FD) {
    if (!FD->hasBody() || !FD->isThisDeclarationADefinition()) {
      const FunctionDecl *Def = nullptr;
      if (FD->hasBody(Def) && Def != FD) FD = Def;
      else if (!FD->hasBody()) return;
    }
    if (FD->isDependentContext()) return;
    if (FD->isDeleted() || FD->isDefaulted()) return;
    if (!Emitted.insert(FD).second) return;
    const Stmt *Body = FD->getBody();
    if (!Body) return;
    CurFn = FD;
    json::Object F;
    F["key"] = fnKey(FD);
    F["name"] = FD->getNameAsString();
    F["qname"] = FD->getQualifiedNameAsString();
    F["loc"] = locStr(FD->getLocation());
    F["file"] = fileOf(FD->getLocation());
    F["line"] = (int64_t)SM.getPresumedLoc(SM.getExpansionLoc(FD->getLocation())).getLine();
    F["off"] = (int64_t)offOf(FD->getBeginLoc());
    F["end"] = (int64_t)offOf(FD->getEndLoc());
    F["ret"] = typeStr(FD->getReturnType());
    F["extern_c"] = FD->isExternC();
    F["noexcept"] = isNoexceptExceptionSpec(
        FD->getType()->castAs<FunctionProtoType>()->getExceptionSpecType());
    F["constexpr"] = FD->isConstexpr();
    F["inline"] = FD->isInlined();
    if (FD->getTemplateSpecializationInfo() ||
        FD->getMemberSpecializationInfo())
      F["instantiation"] = true;
    if (auto *M = dyn_cast<CXXMethodDecl>(FD)) {
      F["cls"] = qname(M->getParent());
      F["const_method"] = M->isConst();
      F["static_method"] = M->isStatic();
      F["virtual"] = M->isVirtual();
      F["access"] = M->getAccess() == AS_public ? "public"
                    : M->getAccess() == AS_private ? "private" : "protected";
      if (M->getParent()->isLambda()) F["lambda"] = true;
      if (isa<CXXConstructorDecl>(M)) F["ctor"] = true;
      if (isa<CXXDestructorDecl>(M)) F["dtor"] = true;
    }
    json::Array Ps;
    for (auto *P : FD->parameters()) {
      json::Object PO;
      PO["name"] = P->getNameAsString();
      PO["id"] = (int64_t)localId(P);
      PO["ty"] = typeStr(P->getType());
      PO["mode"] = paramMode(P->getType());
      Ps.push_back(std::move(PO));
    }
    F["params"] = std::move(Ps);

    // body fingerprint for amalgamation comparison
    {
      std::string T;
      llvm::raw_string_ostream OS(T);
      Body->printPretty(OS, nullptr, PP);
      OS.flush();
      F["body_hash"] = (int64_t)(llvm::hash_value(T) & 0x7fffffffffffffffULL);
      F["body_len"] = (int64_t)T.size();
    }

    // lexical structure: try ranges, loops
    struct Lex : RecursiveASTVisitor<Lex> {
      Extractor &X;
      json::Array Tries, Loops, Throws;
      Lex(Extractor &X) : X(X) {}
      bool TraverseLambdaExpr(LambdaExpr *) { return true; }  // own function
      bool VisitCXXTryStmt(CXXTryStmt *T) {
        json::Object O;
        O["off"] = (int64_t)X.offOf(T->getTryBlock()->getBeginLoc());
        O["end"] = (int64_t)X.offOf(T->getTryBlock()->getEndLoc());
        O["loc"] = X.locStr(T->getBeginLoc());
        json::Array H;
        for (unsigned i = 0; i < T->getNumHandlers(); i++) {
          auto *C = T->getHandler(i);
          H.push_back(C->getExceptionDecl()
                          ? X.typeStr(C->getCaughtType())
                          : std::string("..."));
        }
        O["catches"] = std::move(H);
        Tries.push_back(std::move(O));
        return true;
      }
      void loop(const Stmt *S, const char *K, const Expr *Cond) {
        json::Object O;
        O["kind"] = K;
        O["loc"] = X.locStr(S->getBeginLoc());
        O["off"] = (int64_t)X.offOf(S->getBeginLoc());
        O["end"] = (int64_t)X.offOf(S->getEndLoc());
        if (Cond) O["cond"] = X.ex(Cond);
        if (Cond) O["cond_text"] = X.textOf(Cond);
        Loops.push_back(std::move(O));
      }
      bool VisitForStmt(ForStmt *S) {
        json::Object O;
        loop(S, "for", S->getCond());
        if (S->getInc()) {
          json::Object &L = *Loops.back().getAsObject();
          L["inc"] = X.ex(S->getInc());
        }
        return true;
      }
      bool VisitWhileStmt(WhileStmt *S) { loop(S, "while", S->getCond()); return true; }
      bool VisitDoStmt(DoStmt *S) { loop(S, "do", S->getCond()); return true; }
      bool VisitCXXForRangeStmt(CXXForRangeStmt *S) { loop(S, "range", nullptr); return true; }
      bool VisitCXXThrowExpr(CXXThrowExpr *T) {
        Throws.push_back(X.locStr(T->getBeginLoc()));
        return true;
      }
    } LX(*this);
    LX.TraverseStmt(const_cast<Stmt *>(Body));
    F["tries"] = std::move(LX.Tries);
    F["loops"] = std::move(LX.Loops);
    F["throws"] = std::move(LX.Throws);

    // switches
    struct Sw : RecursiveASTVisitor<Sw> {
      Extractor &X;
      const FunctionDecl *FD;
      Sw(Extractor &X, const FunctionDecl *FD) : X(X), FD(FD) {}
      bool TraverseLambdaExpr(LambdaExpr *) { return true; }
      bool VisitSwitchStmt(SwitchStmt *S) {
        json::Object O;
        O["fn"] = X.fnKey(FD);
        O["loc"] = X.locStr(S->getBeginLoc());
        const Expr *C = skip(S->getCond());
        O["cond"] = X.ex(C);
        QualType CT = S->getCond()->IgnoreParenImpCasts()->getType();
        O["cond_ty"] = X.typeStr(CT);
        json::Array Cases;
        bool HasDefault = false;
        for (const SwitchCase *SC = S->getSwitchCaseList(); SC;
             SC = SC->getNextSwitchCase()) {
          if (auto *CS = dyn_cast<CaseStmt>(SC)) {
            json::Object CO;
            CO["e"] = X.ex(CS->getLHS());
            CO["loc"] = X.locStr(CS->getBeginLoc());
            Cases.push_back(std::move(CO));
          } else if (auto *DS = dyn_cast<DefaultStmt>(SC)) {
            HasDefault = true;
            if (DS->getSubStmt()) O["default_text"] = X.textOf(DS->getSubStmt());
          }
        }
        O["cases"] = std::move(Cases);
        O["has_default"] = HasDefault;
        X.Switches.push_back(std::move(O));
        return true;
      }
    } SW(*this, FD);
    SW.TraverseStmt(const_cast<Stmt *>(Body));

    // CFG
    CFG::BuildOptions BO;
    BO.AddImplicitDtors = false;
    BO.AddTemporaryDtors = false;
    BO.AddInitializers = true;
    BO.PruneTriviallyFalseEdges = true;
    std::unique_ptr<CFG> G = CFG::buildCFG(FD, const_cast<Stmt *>(Body), &Ctx, BO);
    if (!G) {
      F["cfg_failed"] = true;
      Functions.push_back(std::move(F));
      return;
    }
    json::Array Blocks;
    // where is each statement evaluated?  (element -> block)
    ElemBlock.clear();
    for (const CFGBlock *B : *G)
      for (const CFGElement &El : *B)
        if (auto CS = El.getAs<CFGStmt>()) ElemBlock[CS->getStmt()] = B->getBlockID();
    ParentMap PM(const_cast<Stmt *>(Body));
    auto effectiveCond = [](const Stmt *C) -> const Stmt * {
      // the operand actually evaluated last in this block: rightmost leaf of &&/||
      while (C) {
        const Expr *E = dyn_cast<Expr>(C);
        if (!E) break;
        E = E->IgnoreParens();
        if (auto *BO2 = dyn_cast<BinaryOperator>(E)) {
          if (BO2->isLogicalOp()) { C = BO2->getRHS(); continue; }
        }
        return E;
      }
      return C;
    };
    for (const CFGBlock *B : *G) {
      json::Object BJ;
      CurBlock = (int)B->getBlockID();
      BJ["id"] = (int64_t)B->getBlockID();
      if (B == &G->getEntry()) BJ["entry"] = true;
      if (B == &G->getExit()) BJ["exit"] = true;
      if (B->hasNoReturnElement()) BJ["noreturn"] = true;
      const Stmt *TermCond = B->getTerminatorCondition(false);
      const Stmt *TermStmt = B->getTerminatorStmt();
      const Stmt *ECond = TermCond ? effectiveCond(TermCond) : nullptr;
      // same-block elements
      std::set<const Stmt *> InBlock;
      for (const CFGElement &El : *B)
        if (auto CS = El.getAs<CFGStmt>()) InBlock.insert(CS->getStmt());
      json::Array Stmts;
      for (const CFGElement &El : *B) {
        if (auto CS = El.getAs<CFGStmt>()) {
          const Stmt *S = CS->getStmt();
          // not a root if an ancestor is an element of the same block
          bool nested = false;
          for (const Stmt *P = PM.getParent(S); P; P = PM.getParent(P))
            if (InBlock.count(P)) { nested = true; break; }
          if (nested) continue;
          // the branch condition is kept in the terminator
          if (ECond) {
            const Stmt *A = S;
            if (auto *AE = dyn_cast<Expr>(A)) A = AE->IgnoreParenImpCasts();
            const Stmt *Bq = ECond;
            if (auto *BE = dyn_cast<Expr>(Bq)) Bq = BE->IgnoreParenImpCasts();
            if (A == Bq || S == TermCond) continue;
          }
          Stmts.push_back(rootStmt(S));
        } else if (auto CI = El.getAs<CFGInitializer>()) {
          const CXXCtorInitializer *I = CI->getInitializer();
          json::Object O;
          O["k"] = "ctorinit";
          O["loc"] = locStr(I->getSourceLocation());
          if (I->isAnyMemberInitializer())
            O["field"] = I->getAnyMember()->getNameAsString();
          else if (I->isBaseInitializer())
            O["base"] = typeStr(QualType(I->getBaseClass(), 0));
          if (I->getInit()) O["e"] = ex(I->getInit());
          O["text"] = I->getInit() ? textOf(I->getInit()) : "";
          Stmts.push_back(std::move(O));
        }
      }
      BJ["stmts"] = std::move(Stmts);
      if (const Stmt *L = B->getLabel()) {
        json::Object LO;
        if (auto *CS = dyn_cast<CaseStmt>(L)) {
          LO["case"] = ex(CS->getLHS());
          LO["loc"] = locStr(CS->getBeginLoc());
        } else if (isa<DefaultStmt>(L)) {
          LO["default"] = true;
        } else if (auto *LS = dyn_cast<LabelStmt>(L)) {
          LO["label"] = LS->getName();
        }
        BJ["label"] = std::move(LO);
      }
      json::Object Term;
      if (TermStmt) {
        Term["kind"] = TermStmt->getStmtClassName();
        Term["loc"] = locStr(TermStmt->getBeginLoc());
        if (TermStmt->getBeginLoc().isMacroID())
          Term["macros"] = macroStack(TermStmt->getBeginLoc());
        if (auto *IS = dyn_cast<IfStmt>(TermStmt)) {
          if (IS->isConstexpr()) Term["constexpr_if"] = true;
        }
      }
      if (TermCond) {
        if (auto *CE = dyn_cast<Expr>(TermCond)) {
          Term["cond"] = ex(CE);
          Term["cond_text"] = textOf(CE);
          Term["cond_loc"] = locStr(CE->getBeginLoc());
          Term["cond_off"] = (int64_t)offOf(CE->getBeginLoc());
          if (ECond && ECond != TermCond) {
            if (auto *EE = dyn_cast<Expr>(ECond)) {
              Term["econd"] = ex(EE);
              Term["econd_text"] = textOf(EE);
            }
          }
        }
      }
      BJ["term"] = std::move(Term);
      json::Array Succ;
      unsigned si = 0;
      unsigned ns = B->succ_size();
      bool isSwitch = TermStmt && isa<SwitchStmt>(TermStmt);
      bool twoWay = TermStmt && !isSwitch && ns == 2;
      for (auto I = B->succ_begin(); I != B->succ_end(); ++I, ++si) {
        json::Object SO;
        const CFGBlock *To = I->getReachableBlock();
        if (!To) {
          // pruned (unreachable) edge: record but mark
          const CFGBlock *P = I->getPossiblyUnreachableBlock();
          if (!P) { continue; }
          SO["to"] = (int64_t)P->getBlockID();
          SO["pruned"] = true;
        } else {
          SO["to"] = (int64_t)To->getBlockID();
        }
        if (twoWay) SO["when"] = si == 0 ? "true" : "false";
        else if (isSwitch) SO["when"] = "case";
        else SO["when"] = "fall";
        Succ.push_back(std::move(SO));
      }
      BJ["succ"] = std::move(Succ);
      Blocks.push_back(std::move(BJ));
    }
    F["blocks"] = std::move(Blocks);
    F["entry"] = (int64_t)G->getEntry().getBlockID();
    F["exit"] = (int64_t)G->getExit().getBlockID();
    Functions.push_back(std::move(F));
    CurFn = nullptr;
    CurBlock = -1;
    ElemBlock.clear();
  }

  // ---------------------------------------------------------------- decls
  void emitProto(const FunctionDecl *FD) {
    json::Object O;
    O["name"] = FD->getNameAsString();
    O["qname"] = FD->getQualifiedNameAsString();
    O["key"] = fnKey(FD);
    O["loc"] = locStr(FD->getLocation());
    O["file"] = fileOf(FD->getLocation());
    O["ret"] = typeStr(FD->getReturnType());
    O["extern_c"] = FD->isExternC();
    O["is_def"] = FD->isThisDeclarationADefinition();
    if (auto *FPT = FD->getType()->getAs<FunctionProtoType>())
      O["noexcept"] = isNoexceptExceptionSpec(FPT->getExceptionSpecType());
    json::Array Ps;
    for (auto *P : FD->parameters()) {
      json::Object PO;
      PO["name"] = P->getNameAsString();
      PO["ty"] = typeStr(P->getType());
      PO["cty"] = typeStr(P->getType().getCanonicalType());
      Ps.push_back(std::move(PO));
    }
    O["params"] = std::move(Ps);
    O["cret"] = typeStr(FD->getReturnType().getCanonicalType());
    if (auto *M = dyn_cast<CXXMethodDecl>(FD)) {
      O["cls"] = qname(M->getParent());
      O["const_method"] = M->isConst();
      O["access"] = M->getAccess() == AS_public ? "public"
                    : M->getAccess() == AS_private ? "private" : "protected";
    }
    Protos.push_back(std::move(O));
  }

  void emitRecord(const RecordDecl *RD) {
    if (!RD->isCompleteDefinition()) return;
    if (RD->isDependentType()) return;
    if (auto *CR = dyn_cast<CXXRecordDecl>(RD))
      if (CR->isLambda()) return;
    json::Object O;
    O["name"] = RD->getNameAsString();
    O["qname"] = qname(RD);
    if (RD->getNameAsString().empty()) {
      if (const TypedefNameDecl *TD = RD->getTypedefNameForAnonDecl()) {
        O["name"] = TD->getNameAsString();
        O["qname"] = TD->getQualifiedNameAsString();
      }
    }
    O["loc"] = locStr(RD->getLocation());
    O["kind"] = RD->getKindName().str();
    const ASTRecordLayout *L = nullptr;
    if (!RD->isInvalidDecl()) L = &Ctx.getASTRecordLayout(RD);
    if (L) O["size"] = (int64_t)L->getSize().getQuantity();
    json::Array Fs;
    unsigned i = 0;
    for (auto *F : RD->fields()) {
      json::Object FO;
      FO["name"] = F->getNameAsString();
      FO["ty"] = typeStr(F->getType());
      FO["cty"] = typeStr(F->getType().getCanonicalType());
      FO["access"] = F->getAccess() == AS_public ? "public"
                     : F->getAccess() == AS_private ? "private"
                     : F->getAccess() == AS_protected ? "protected" : "none";
      if (L) FO["offset_bits"] = (int64_t)L->getFieldOffset(i);
      FO["is_pointer"] = F->getType()->isPointerType();
      FO["is_reference"] = F->getType()->isReferenceType();
      if (F->hasInClassInitializer() && F->getInClassInitializer())
        FO["init"] = ex(F->getInClassInitializer());
      if (F->isMutable()) FO["mutable"] = true;
      Fs.push_back(std::move(FO));
      i++;
    }
    O["fields"] = std::move(Fs);
    if (auto *CR = dyn_cast<CXXRecordDecl>(RD)) {
      json::Array Bs;
      for (auto &B : CR->bases()) Bs.push_back(typeStr(B.getType()));
      O["bases"] = std::move(Bs);
      json::Array Fr;
      for (auto *FrD : CR->friends()) {
        json::Object FO;
        if (const NamedDecl *ND = FrD->getFriendDecl()) {
          FO["name"] = ND->getQualifiedNameAsString();
          FO["kind"] = ND->getDeclKindName();
          if (auto *FD = dyn_cast<FunctionDecl>(ND)) FO["key"] = fnKey(FD);
          if (auto *FT = dyn_cast<FunctionTemplateDecl>(ND))
            FO["key"] = fnKey(FT->getTemplatedDecl());
        } else if (TypeSourceInfo *TSI = FrD->getFriendType()) {
          FO["name"] = typeStr(TSI->getType());
          FO["kind"] = "type";
        }
        FO["loc"] = locStr(FrD->getLocation());
        Fr.push_back(std::move(FO));
      }
      O["friends"] = std::move(Fr);
      // special members
      json::Object SMO;
      auto classify = [&](const CXXMethodDecl *M) -> std::string {
        if (!M) return "none";
        if (M->isDeleted()) return "deleted";
        if (M->isImplicit()) return "implicit";
        if (M->isDefaulted()) return "defaulted";
        return "user";
      };
      std::string cc = "implicit", mc = "implicit", ca = "implicit", ma = "implicit", dt = "implicit";
      for (auto *M : CR->methods()) {
        if (auto *C = dyn_cast<CXXConstructorDecl>(M)) {
          if (C->isCopyConstructor()) cc = classify(C);
          if (C->isMoveConstructor()) mc = classify(C);
        } else if (isa<CXXDestructorDecl>(M)) {
          dt = classify(M);
        } else if (M->isCopyAssignmentOperator()) ca = classify(M);
        else if (M->isMoveAssignmentOperator()) ma = classify(M);
      }
      SMO["copy_ctor"] = cc; SMO["move_ctor"] = mc;
      SMO["copy_assign"] = ca; SMO["move_assign"] = ma; SMO["dtor"] = dt;
      O["special"] = std::move(SMO);
    }
    Records.push_back(std::move(O));
  }

  void emitEnum(const EnumDecl *ED) {
    if (!ED->isCompleteDefinition()) return;
    json::Object O;
    O["name"] = ED->getNameAsString();
    O["qname"] = ED->getQualifiedNameAsString();
    O["loc"] = locStr(ED->getLocation());
    O["underlying"] = typeStr(ED->getIntegerType());
    json::Array Es;
    for (auto *E : ED->enumerators()) {
      json::Object EO;
      EO["name"] = E->getNameAsString();
      const llvm::APSInt &I = E->getInitVal();
      EO["v"] = I.isSigned() ? I.getSExtValue() : (int64_t)I.getZExtValue();
      Es.push_back(std::move(EO));
    }
    O["enumerators"] = std::move(Es);
    Enums.push_back(std::move(O));
  }

  std::set<const VarDecl *> SeenVars;
  void emitGlobal(const VarDecl *VD) {
    if (!VD->hasGlobalStorage()) return;
    if (VD->getType()->isDependentType()) return;
    if (isa<ParmVarDecl>(VD)) return;
    if (VD->isThisDeclarationADefinition() == VarDecl::DeclarationOnly) {
      // static data member declaration with in-class init is still interesting
      if (!VD->hasInit()) return;
    }
    const VarDecl *Canon = VD->getCanonicalDecl();
    if (!SeenVars.insert(Canon).second && !VD->hasInit()) return;
    json::Object O;
    O["name"] = VD->getNameAsString();
    O["qname"] = VD->getQualifiedNameAsString();
    O["loc"] = locStr(VD->getLocation());
    O["file"] = fileOf(VD->getLocation());
    QualType T = VD->getType();
    O["ty"] = typeStr(T);
    O["cty"] = typeStr(T.getCanonicalType());
    O["const"] = T.isConstQualified() ||
                 (T->isArrayType() &&
                  Ctx.getBaseElementType(T).isConstQualified());
    O["constexpr"] = VD->isConstexpr();
    O["static_local"] = VD->isStaticLocal();
    O["thread_local"] = VD->getTLSKind() != VarDecl::TLS_None;
    O["has_init"] = VD->hasInit();
    if (VD->isStaticLocal()) {
      const DeclContext *DC = VD->getDeclContext();
      while (DC && !isa<FunctionDecl>(DC)) DC = DC->getParent();
      if (DC) O["in_fn"] = fnKey(cast<FunctionDecl>(DC));
    }
    bool ConstInit = false;
    if (VD->hasInit() && !VD->getInit()->isValueDependent()) {
      ConstInit = VD->hasConstantInitialization();
    }
    O["const_init"] = ConstInit;
    Globals.push_back(std::move(O));

    // table value
    if (VD->hasInit() && !VD->getInit()->isValueDependent() &&
        (VD->isConstexpr() || (T.isConstQualified() && ConstInit) ||
         (T->isArrayType() && Ctx.getBaseElementType(T).isConstQualified() && ConstInit))) {
      if (const APValue *AV = VD->evaluateValue()) {
        json::Object TO;
        TO["name"] = VD->getNameAsString();
        TO["qname"] = VD->getQualifiedNameAsString();
        TO["loc"] = locStr(VD->getLocation());
        TO["ty"] = typeStr(T);
        if (VD->isStaticLocal()) {
          const DeclContext *DC = VD->getDeclContext();
          while (DC && !isa<FunctionDecl>(DC)) DC = DC->getParent();
          if (DC) TO["in_fn"] = fnKey(cast<FunctionDecl>(DC));
        }
        TO["value"] = apv(*AV, T);
        Tables.push_back(std::move(TO));
      }
    }
  }

  // ---------------------------------------------------------------- walk
  struct Walker : RecursiveASTVisitor<Walker> {
    Extractor &X;
    Walker(Extractor &X) : X(X) {}
    bool shouldVisitTemplateInstantiations() const { return true; }
    bool shouldVisitImplicitCode() const { return false; }
    bool VisitFunctionDecl(FunctionDecl *FD) {
      if (!X.firstPartyDecl(FD)) return true;
      if (FD->isDependentContext()) return true;
      X.emitProto(FD);
      if (FD->doesThisDeclarationHaveABody()) X.emitFunction(FD);
      return true;
    }
    bool VisitRecordDecl(RecordDecl *RD) {
      if (!X.firstPartyDecl(RD)) return true;
      X.emitRecord(RD);
      return true;
    }
    bool VisitEnumDecl(EnumDecl *ED) {
      if (!X.firstPartyDecl(ED)) return true;
      X.emitEnum(ED);
      return true;
    }
    bool VisitVarDecl(VarDecl *VD) {
      if (!X.firstPartyDecl(VD)) return true;
      if (VD->getDeclContext()->isDependentContext()) return true;
      X.emitGlobal(VD);
      return true;
    }
  };

  void run() {
    Walker W(*this);
    W.TraverseDecl(Ctx.getTranslationUnitDecl());
    while (!Queue.empty()) {
      const FunctionDecl *F = Queue.front();
      Queue.pop_front();
      if (firstParty(F->getLocation())) emitFunction(F);
    }
    json::Object Root;
    Root["functions"] = std::move(Functions);
    Root["tables"] = std::move(Tables);
    Root["records"] = std::move(Records);
    Root["enums"] = std::move(Enums);
    Root["globals"] = std::move(Globals);
    Root["switches"] = std::move(Switches);
    Root["protos"] = std::move(Protos);
    std::error_code EC;
    llvm::raw_fd_ostream OS(gOut, EC);
    if (EC) {
      llvm::errs() << "cannot write " << gOut << "\n";
      exit(3);
    }
    OS << json::Value(std::move(Root));
    OS << "\n";
  }
};

class Consumer : public ASTConsumer {
 public:
  void HandleTranslationUnit(ASTContext &Ctx) override {
    if (Ctx.getDiagnostics().hasErrorOccurred()) {
      llvm::errs() << "adafacts: compilation errors, no facts written\n";
      return;
    }
    Extractor X(Ctx);
    X.run();
  }
};

class Action : public ASTFrontendAction {
 public:
  std::unique_ptr<ASTConsumer> CreateASTConsumer(CompilerInstance &,
                                                 llvm::StringRef) override {
    return std::make_unique<Consumer>();
  }
};

}  // namespace

int main(int argc, const char **argv) {
  std::vector<std::string> Files;
  std::vector<std::string> Flags;
  int i = 1;
  for (; i < argc; i++) {
    std::string A = argv[i];
    if (A == "--") { i++; break; }
    if (A == "--out" && i + 1 < argc) gOut = argv[++i];
    else if (A == "--root" && i + 1 < argc) gRoots.push_back(argv[++i]);
    else if (A == "--exclude" && i + 1 < argc) gExclude.push_back(argv[++i]);
    else Files.push_back(A);
  }
  for (; i < argc; i++) Flags.push_back(argv[i]);
  if (gOut.empty() || Files.size() != 1) {
    llvm::errs() << "usage: adafacts --out F --root R file -- flags\n";
    return 2;
  }
  Flags.push_back("-resource-dir");
  Flags.push_back("/usr/lib/llvm-14/lib/clang/14.0.6");
  Flags.push_back("-Wno-everything");
  clang::tooling::FixedCompilationDatabase DB(".", Flags);
  clang::tooling::ClangTool Tool(DB, Files);
  int rc = Tool.run(clang::tooling::newFrontendActionFactory<Action>().get());
  return rc;
}
