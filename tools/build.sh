#!/bin/sh
# Build the libTooling fact extractor (offline; clang 14 / llvm-14 on disk).
set -e
cd "$(dirname "$0")"
if [ adafacts -nt adafacts.cc ]; then exit 0; fi
clang++ $(llvm-config-14 --cxxflags) -std=c++17 -fno-rtti -O1 adafacts.cc -o adafacts.tmp \
  /usr/lib/llvm-14/lib/libclang-cpp.so.14 /usr/lib/llvm-14/lib/libLLVM-14.so
mv adafacts.tmp adafacts
