#!/usr/bin/env python3
"""neutral_patches.py <dir-or-diff>... — false-alarm test with whole patches (git diffs) instead of find/replace edits.
Each diff is applied to a scratch export of /repo's HEAD (outside /repo and /verif); all 17 quick checks must exit 0.
Prints `quiet <patch>` or `ALARM <patch>` with the checks that fired (exit 1 = violation, exit 2 = analysis broken:
both count, a behaviour-preserving edit must not stop a check either)."""
import glob
import json
import os
import shutil
import subprocess
import sys
import tempfile
from concurrent.futures import ThreadPoolExecutor

HERE = os.path.dirname(os.path.dirname(os.path.abspath(__file__)))
PROPS = [c["property_id"] for c in json.load(open(os.path.join(HERE, "MANIFEST.json")))["checks"]]
# --props C01,C07,... restricts the run to the checks whose rules changed since the last full run
for _a in list(sys.argv[1:]):
    if _a.startswith("--props="):
        PROPS = [p for p in PROPS if p in _a.split("=", 1)[1].split(",")]
        sys.argv.remove(_a)


def run(patch):
    d = tempfile.mkdtemp(prefix="ada_np_")
    try:
        p1 = subprocess.Popen(["git", "-C", "/repo", "archive", "HEAD"], stdout=subprocess.PIPE)
        subprocess.run(["tar", "-x", "-C", d], stdin=p1.stdout, check=True)
        p1.wait()
        r = subprocess.run(["patch", "-p1", "-s", "-i", os.path.abspath(patch)], cwd=d, capture_output=True, text=True)
        if r.returncode != 0:
            return patch, [("-", "patch does not apply: " + (r.stdout + r.stderr)[:200])]
        env = dict(os.environ, VERIF_REPO=d, VERIF_NO_EVIDENCE="1")
        bad = []
        for prop in PROPS:
            r = subprocess.run([sys.executable, os.path.join(HERE, "check.py"), prop, "--tier", "quick"], env=env,
                               capture_output=True, text=True)
            if r.returncode != 0:
                lines = [l for l in (r.stdout + r.stderr).splitlines()
                         if l.startswith(("VIOLATION", "  construct", "  finding", "ANALYSIS-BROKEN", "  rule  "))]
                bad.append((prop, "exit %d: %s" % (r.returncode, " | ".join(lines)[:700])))
        return patch, bad
    finally:
        shutil.rmtree(d, ignore_errors=True)


def main():
    args = [a for a in sys.argv[1:] if not a.startswith("-")]
    j = 3
    for a in sys.argv[1:]:
        if a.startswith("-j"):
            j = int(a[2:])
    patches = []
    for a in args:
        patches += sorted(glob.glob(os.path.join(a, "*.diff"))) if os.path.isdir(a) else [a]
    nbad = 0
    with ThreadPoolExecutor(max_workers=j) as ex:
        for patch, bad in ex.map(run, patches):
            print("%-6s %s" % ("ALARM" if bad else "quiet", patch))
            for p, t in bad:
                nbad += 1
                print("    %s %s" % (p, t))
            sys.stdout.flush()
    print("neutral patches: %d, false alarm(s): %d" % (len(patches), nbad))
    return 1 if nbad else 0


if __name__ == "__main__":
    sys.exit(main())
