#!/bin/sh
# revert_check.sh <repo-commit> <property> [tier] — export /repo's HEAD to a scratch copy, reverse-apply one fix commit
# there and run the property's check on it: the rule that covers the fixed defect must report it again (exit 1).
set -u
C=$1; P=$2; T=${3:-quick}
D=$(mktemp -d /tmp/ada_rev_XXXXXX)
git -C /repo archive HEAD | tar -x -C $D
git -C /repo show $C | (cd $D && patch -R -p1 -s) || { echo "revert of $C does not apply"; rm -rf $D; exit 2; }
VERIF_REPO=$D VERIF_NO_EVIDENCE=1 python3 /verif/check.py $P --tier $T 2>&1 | grep -E "^VIOLATION|rule  |construct|ANALYSIS-BROKEN|\[$T\]"
rm -rf $D
