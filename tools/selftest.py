#!/usr/bin/env python3
"""Self-test of the checkers (DESIGN.md §8): every mutant in /verif/mutants/*.json is a
small source edit that breaks one rule instance.  Each is applied to a scratch copy
of /repo's src/include/singleheader (outside /repo and /verif, removed afterwards)
and the property's check is run against the copy with VERIF_REPO; it must exit 1 and
name the expected rule.  Usage:
    selftest.py [--prop Cxx] [--name substr] [--tier quick|thorough] [-j N] [--keep]
Exit 0 when every selected mutant is caught (and, with --clean, the clean copy passes).
"""
import argparse
import glob
import json
import os
import shutil
import subprocess
import sys
import tempfile
from concurrent.futures import ThreadPoolExecutor

HERE = os.path.dirname(os.path.dirname(os.path.abspath(__file__)))
REPO = os.environ.get("VERIF_REPO", "/repo")


def load_mutants():
    out = []
    for p in sorted(glob.glob(os.path.join(HERE, "mutants", "*.json"))):
        with open(p) as f:
            for m in json.load(f):
                m["_file"] = os.path.basename(p)
                out.append(m)
    return out


def make_copy():
    d = tempfile.mkdtemp(prefix="ada_mut_")
    for sub in ("src", "include", "singleheader"):
        shutil.copytree(os.path.join(REPO, sub), os.path.join(d, sub))
    return d


def apply(m, root):
    edits = m["edits"] if "edits" in m else [m]
    for e in edits:
        p = os.path.join(root, e["file"])
        with open(p) as f:
            s = f.read()
        n = s.count(e["find"])
        nth = e.get("nth")
        if n == 0:
            return "pattern not found in %s: %r" % (e["file"], e["find"][:60])
        if nth is None and n != 1 and not e.get("all"):
            return "pattern occurs %d times in %s (give nth or all): %r" % (n, e["file"], e["find"][:60])
        if e.get("all"):
            s = s.replace(e["find"], e["replace"])
        else:
            k = (nth or 1)
            idx = -1
            for _ in range(k):
                idx = s.find(e["find"], idx + 1)
            if idx < 0:
                return "occurrence %d not found" % k
            s = s[:idx] + e["replace"] + s[idx + len(e["find"]):]
        with open(p, "w") as f:
            f.write(s)
    return None


def run_one(m, tier, keep=False):
    root = make_copy()
    try:
        err = apply(m, root)
        if err:
            return m, "BROKEN-MUTANT", err
        env = dict(os.environ)
        env["VERIF_REPO"] = root
        env["VERIF_NO_EVIDENCE"] = "1"
        r = subprocess.run([sys.executable, os.path.join(HERE, "check.py"), m["property"], "--tier",
                            m.get("tier", tier)], env=env, capture_output=True, text=True)
        out = r.stdout + r.stderr
        if r.returncode == 1 and "VIOLATION property=%s" % m["property"] in out:
            want = m.get("expect")
            if want and want not in out:
                return m, "WRONG-REPORT", "exit 1 but the report does not mention %r:\n%s" % (want, out[-1500:])
            return m, "CAUGHT", ""
        if r.returncode == 2:
            return m, "ANALYSIS-BROKEN", out[-800:]
        return m, "MISSED", "exit %d\n%s" % (r.returncode, out[-800:])
    finally:
        if not keep:
            shutil.rmtree(root, ignore_errors=True)


def main():
    ap = argparse.ArgumentParser()
    ap.add_argument("--prop")
    ap.add_argument("--name")
    ap.add_argument("--tier", default="quick")
    ap.add_argument("-j", type=int, default=8)
    ap.add_argument("-v", action="store_true")
    a = ap.parse_args()
    ms = load_mutants()
    if a.prop:
        ms = [m for m in ms if m["property"] == a.prop]
    if a.name:
        ms = [m for m in ms if a.name in m["name"]]
    bad = 0
    with ThreadPoolExecutor(max_workers=a.j) as ex:
        for m, verdict, info in ex.map(lambda m: run_one(m, a.tier), ms):
            ok = verdict == "CAUGHT" or (verdict == "ANALYSIS-BROKEN" and m.get("accept_broken"))
            print("%-16s %s %-40s %s" % (verdict, m["property"], m["name"], m.get("expect", "")))
            if not ok:
                bad += 1
                print("    " + info.replace("\n", "\n    "))
            elif a.v and info:
                print("    " + info.replace("\n", "\n    "))
    print("selftest: %d mutants, %d not caught" % (len(ms), bad))
    return 1 if bad else 0


if __name__ == "__main__":
    sys.exit(main())
