#!/bin/sh
# try_seed.sh <seed-name> <property> [tier]  — apply /verif/seeded/<name>/patch.diff to /repo, run the check, undo.
set -u
NAME=$1; PROP=$2; TIER=${3:-quick}
cd /repo || exit 2
git diff --quiet || { echo "/repo has uncommitted changes"; exit 2; }
git apply /verif/seeded/$NAME/patch.diff || { echo "patch does not apply"; exit 2; }
VERIF_NO_EVIDENCE=1 python3 /verif/check.py $PROP --tier $TIER > /tmp/try_seed_$NAME.out 2>&1
RC=$?
git checkout -- .
grep -E "^VIOLATION|construct|finding|ANALYSIS-BROKEN|\[$TIER\]" /tmp/try_seed_$NAME.out | head -${4:-12}
echo "exit=$RC"
rm -f /tmp/try_seed_$NAME.out
