#!/usr/bin/env python3
"""False-alarm test: behaviour-preserving edits (/verif/mutants_neutral/*.json) are applied to a scratch copy of the
tree and *every* claimed property's quick check is run on it; each must exit 0 (or print only KNOWN-FINDING lines).
Usage: neutral.py [--name substr] [-j N]"""
import argparse
import glob
import json
import os
import shutil
import subprocess
import sys
from concurrent.futures import ThreadPoolExecutor
sys.path.insert(0, os.path.dirname(os.path.abspath(__file__)))
import selftest as ST      # noqa: E402

HERE = os.path.dirname(os.path.dirname(os.path.abspath(__file__)))
PROPS = ["C01", "C02", "C03", "C04", "C05", "C07", "C08", "C09", "C10", "C11", "C12", "C13", "C14", "C15", "C17", "C18", "C19"]


def run(m):
    root = ST.make_copy()
    try:
        err = ST.apply(m, root)
        if err:
            return m, [("-", "BROKEN-EDIT " + err)]
        env = dict(os.environ)
        env["VERIF_REPO"] = root
        env["VERIF_NO_EVIDENCE"] = "1"
        bad = []
        for p in m.get("props", PROPS):
            r = subprocess.run([sys.executable, os.path.join(HERE, "check.py"), p, "--tier", "quick"], env=env,
                               capture_output=True, text=True)
            if r.returncode != 0:
                out = r.stdout + r.stderr
                lines = [l for l in out.splitlines() if l.startswith(("VIOLATION", "ANALYSIS-BROKEN", "  construct", "  finding"))]
                bad.append((p, "exit %d: %s" % (r.returncode, " | ".join(lines[:4])[:500])))
        return m, bad
    finally:
        shutil.rmtree(root, ignore_errors=True)


def main():
    ap = argparse.ArgumentParser()
    ap.add_argument("--name")
    ap.add_argument("--file", help="only the edits of mutants_neutral/<file>")
    ap.add_argument("-j", type=int, default=4)
    a = ap.parse_args()
    ms = []
    for p in sorted(glob.glob(os.path.join(HERE, "mutants_neutral", "*.json"))):
        if a.file and os.path.basename(p) != a.file:
            continue
        ms += json.load(open(p))
    if a.name:
        ms = [m for m in ms if a.name in m["name"]]
    nbad = 0
    with ThreadPoolExecutor(max_workers=a.j) as ex:
        for m, bad in ex.map(run, ms):
            print("%-8s %s" % ("ALARM" if bad else "quiet", m["name"]))
            for p, t in bad:
                nbad += 1
                print("    %s %s" % (p, t))
    print("neutral: %d edits, %d false alarm(s)" % (len(ms), nbad))
    return 1 if nbad else 0


if __name__ == "__main__":
    sys.exit(main())
