#!/bin/sh
# confirm_seed.sh <seed-name> <worktree> [extra demo g++ flags]
# Re-confirms a seeded change produced by a sub-agent in its scratch worktree:
#   with the change:    library builds, pinned tests pass, demo FAILS
#   without the change: demo PASSES
# and stores patch.diff, the demo and confirm.log under /verif/seeded/<seed-name>/.
set -u
NAME=$1; W=$2; shift 2; EXTRA="$*"
OUT=/verif/seeded/$NAME
mkdir -p $OUT
cd $W || exit 2
git diff -- src include > $OUT/patch.diff
[ -s $OUT/patch.diff ] || { echo "no change applied in $W"; exit 2; }
cp seed_demo.cpp $OUT/demo.cpp
cp seed_meta.txt $OUT/agent_notes.txt 2>/dev/null
LOG=$OUT/confirm.log
: > $LOG
demo() { g++ -O2 -std=c++20 -pthread $EXTRA -I$W/include $W/seed_demo.cpp $W/_build/src/libada.a -o $W/seed_demo_confirm 2>>$LOG && $W/seed_demo_confirm >>$LOG 2>&1; }
echo "== with change: build + pinned tests" >> $LOG
/tmp/wt/bt.sh $W >> $LOG 2>&1
echo "== with change: demo" >> $LOG
demo; RC_WITH=$?
echo "demo exit (with change) = $RC_WITH" >> $LOG
git checkout -- src include   # (not git stash: the stash is shared by all worktrees of the repository)
echo "== without change: build" >> $LOG
/tmp/wt/bt.sh $W >> $LOG 2>&1
echo "== without change: demo" >> $LOG
demo; RC_WITHOUT=$?
echo "demo exit (without change) = $RC_WITHOUT" >> $LOG
git apply $OUT/patch.diff
grep -E "tests passed|demo exit|DID NOT BUILD|CONFIGURE FAILED" $LOG
if [ $RC_WITH -ne 0 ] && [ $RC_WITHOUT -eq 0 ]; then echo "CONFIRMED $NAME"; else echo "NOT CONFIRMED $NAME"; fi
