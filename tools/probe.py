#!/usr/bin/env python3
"""probe.py <mutants.json> [-jN] — exploratory: apply each change to a scratch copy and run ALL quick checks; list which
checks (if any) report it.  Used to look for blind spots; changes that nothing reports are candidates for new rules."""
import json, os, shutil, subprocess, sys
from concurrent.futures import ThreadPoolExecutor
HERE = os.path.dirname(os.path.dirname(os.path.abspath(__file__)))
sys.path.insert(0, os.path.join(HERE, "tools"))
import selftest as S
PROPS = [c["property_id"] for c in json.load(open(os.path.join(HERE, "MANIFEST.json")))["checks"]]


def run(m):
    d = S.make_copy()
    try:
        err = S.apply(m, d)
        if err:
            return m, "APPLY: " + err, []
        env = dict(os.environ, VERIF_REPO=d, VERIF_NO_EVIDENCE="1")
        hits = []
        for p in PROPS:
            r = subprocess.run([sys.executable, os.path.join(HERE, "check.py"), p, "--tier", "quick"], env=env,
                               capture_output=True, text=True)
            if r.returncode != 0:
                rules = sorted({l.split(":")[1].split("—")[0].strip() for l in r.stdout.splitlines() if l.startswith("  rule  ")})
                hits.append("%s(%s%s)" % (p, "exit2 " if r.returncode == 2 else "", ",".join(rules)))
        return m, None, hits
    finally:
        shutil.rmtree(d, ignore_errors=True)


def main():
    ms = json.load(open(sys.argv[1]))
    j = 3
    for a in sys.argv[2:]:
        if a.startswith("-j"):
            j = int(a[2:])
    with ThreadPoolExecutor(max_workers=j) as ex:
        for m, err, hits in ex.map(run, ms):
            print("%-52s %s" % (m["name"], err or (" ".join(hits) if hits else "-- NOT REPORTED --")))
            sys.stdout.flush()


if __name__ == "__main__":
    main()
