#!/bin/sh
# Runs every seeded change under /verif/seeded against the quick check of its property (applied to /repo, undone afterwards).
cd /verif
for d in seeded/[A-Z]*/; do
  n=$(basename $d)
  p=$(python3 -c "import json;m=json.load(open('$d/meta.json'));print(m.get('checked_under',m['property']))")
  r=$(tools/try_seed.sh $n $p quick 0 2>&1 | tail -1)
  echo "$n $p $r"
done
