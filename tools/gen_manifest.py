#!/usr/bin/env python3
"""Regenerates /verif/MANIFEST.json from the table below (single source of truth)."""
import json
import os

HERE = os.path.dirname(os.path.dirname(os.path.abspath(__file__)))

NOTE = ("trusted base: clang 14 front end + constant evaluator, /verif/tools/adafacts.cc, /verif/lib, "
        "/verif/spec/whatwg.py; exit 2 = analysis broken (anchor or idiom not found), never a pass")

CLAIMED = {
    # id: (category, text, technique, design_ref, extra level_note)
    "C01": ("other",
            "Decides the table/shortcut clauses of the property exhaustively: byte-domain abstract interpretation of the "
            "fast path's four scanning loops shows every byte it copies verbatim is a byte the general parser leaves "
            "unchanged; path-signature, forbidden host/domain, scheme-character, delimiter and special-scheme tables "
            "(incl. the perfect hash) equal the Standard's sets for all 256 bytes; the parser's state switch is "
            "exhaustive. The transition logic for every string is a value-level matter and is not decided. Also: the parser's direct failure exits fail under the flag the Standard names (atSignSeen for the empty authority); the transition relation of the state machine (which state can follow which), extracted from the CFG of every instantiation, equals the Standard's, and so does the set of URL components each state sets — the conditions under which each transition is taken remain value-level. Shared helpers are decided exhaustively against the Standard: byte predicates over 256 values, dot-segment spellings, drive-letter byte classes, first-'#' / both-ends trimming, fixed spellings per state, the %20 rewrite's control dependence.",
            "table algebra + byte-domain abstract interpretation of scanning loops + CFG state-machine graph",
            "DESIGN.md §5 C01", "partial: table/shortcut agreement only"),
    "C03": ("other",
            "Decides failure atomicity as a path property: a typestate fixpoint over the CFG of each of the 24 setter "
            "bodies (callee effects from summaries of their own CFGs, restores modelled exactly, boolean results "
            "tracked) shows every exit that reports failure is reached with every written field restored. That a "
            "successful setter produces the Standard's state is value-level and not decided. Also (rule shared with C19): the protocol setter's three state-override refusals and its default-port elision are present in all four copies. Also: each setter normalises its argument as the Standard's API setter does, the empty-value arms of port/search/hash clear the component, and the host setter hands only a non-empty port text to set_port.",
            "typestate dataflow over per-instantiation CFGs with interprocedural summaries",
            "DESIGN.md §5 C03", "partial: the 'fails atomically' sentence"),
    "C04": ("other",
            "Decides the failure mode the property names (a change applied to one copy only): for 10 pairs of sibling "
            "functions the canonicalised validation conditions guarding failing exits agree between ada::url and "
            "ada::url_aggregator; in each of the 19 parser states both instantiations have the same component write "
            "sites; memcmp-based in-place shortcuts are equality tests. Equality of all getters for all inputs is "
            "value-level and not decided. Also: the two parse_ipv6 bodies are statement-for-statement identical (alpha-renamed normal form) up to the storage epilogue; the four copies of the protocol setter's state-override block agree; url::get_components() computes the aggregator's offset layout on every path; per byte value, the two parse_host bodies reach unicode::to_ascii for the same probe hosts (CFG walk with the scanners' table entries substituted).",
            "twin-skeleton comparison (A5) + per-state effect comparison over the state-machine graph (A3/A9)",
            "DESIGN.md §5 C04", "partial; skeleton canonicalisation uses a frozen correspondence of the two storages"),
    "C05": ("other",
            "Decides the byte-range sentence at table level: all seven encode sets contain every byte outside "
            "0x21-0x7E except that only the C0 set omits the space, the C0 set is referenced only by the opaque-path "
            "state and parse_opaque_host, the fast path and the domain tables admit printable ASCII only, the "
            "trailing-space rewrite and the four strip_trailing_spaces call sites are present under input.empty(). "
            "The parse fixed point relates two executions and is not decided. Also: both SWAR lower-casing kernels are evaluated lane-wise for all ASCII bytes (exactly A-Z folded), so the cheap and the IDNA route of the host parser lower-case alike.",
            "table algebra + who-references + state-region + must-dataflow queries",
            "DESIGN.md §5 C05", "modulo C11.R3 (each component goes through its own set)"),
    "C12": ("other",
            "Decides the structural premises: stable sort; the comparator's two UTF-8->UTF-16 decoders are mirror "
            "images; list syntax bytes (& = + %) are in the serializer's encode set, key and value are both decoded, "
            "'+' decodes to space; C wrappers delegate by name (C17). List-model behaviour over operation sequences "
            "is not decided. Also: the form-urlencoded decoder copies a cursor byte only after a test on the cursor as it stands and writes ' ' only for '+'; set() overwrites the first and erases the later pairs on every path; compaction predicates capture no view argument; each lookup compares `first` with the name and `second` with the value (from the instantiated generic-lambda bodies).",
            "resolved-callee query + twin-skeleton comparison + table algebra",
            "DESIGN.md §5 C12", "partial"),
    "C14": ("other",
            "Slot consistency of the 8-fold component code in test/match/test_components/getters (one component per "
            "statement, arguments bound to the parameter of the same name), identical handling of the four component "
            "types by fast_test and fast_match (same acceptance condition per enumerator, same provider arguments), "
            "and identical input plumbing of test and match (type_error, failure -> no match, delimiter stripping). "
            "Regex semantics / captured groups are not decided. Also: a default-constructed result<T> is never read as a 'was it set' flag (defect F6, fixed); the literal and regex forms of 'protocol matches a special scheme' list the same schemes; test and match strip the same delimiters the same number of times; on the dictionary path no field of the process() result is stripped again; the special-scheme lists equal the Standard's six schemes.",
            "slot-consistency (A6) and twin-skeleton (A5) rules over the explicit std_regex_provider instantiation",
            "DESIGN.md §5 C14", "partial"),
    "C15": ("other",
            "Decides the condition the property text gives for the shortcuts: the 'simple' byte classes (computed "
            "symbolically from the shortcut loops and char_class_table) are subsets of the bytes the parser-based slow "
            "path leaves unchanged, the hostname shortcut is dominated by !is_ipv4, the protocol canonicaliser's byte "
            "classes equal the Standard's, and every component flows through its own field / process_N / "
            "canonicalize_N / component slot. Equality with the parser-based definition for every value is not decided. Also: each canonicaliser scans and encodes with the one percent-encode set of its component; a scheme's default port is compared only where 0 is told apart; ada::parse inside a canonicaliser receives only the literal dummy URL (the value enters through a setter = state override, or the component's encoder) and the canonicalisers the Standard routes through the basic URL parser remove tab/newline; 'protocol matches a special scheme' enumerates exactly the special schemes. Also: the port canonicaliser tests five significant digits and 65535.",
            "byte-set semantics + must-dataflow + slot consistency",
            "DESIGN.md §5 C15", "partial"),
    "C07": ("other",
            "Decides the offset-shift discipline of all 21 buffer editors (84 shifts) path-sensitively: every shift "
            "applied to a component offset is applied to every later offset on the same path unless that offset is "
            "known omitted or recomputed; optional offsets are shifted only under a `!= omitted` fact; offsets behind "
            "a buffer edit position are updated; members are owning value types with compiler-generated copy/move; "
            "only the frozen friends can write buffer/components. Whether validate() accepts every reachable object "
            "(values of deltas) is not decided. Also byte accounting: every acyclic path of the 20 in-place editors is replayed symbolically and every offset not known omitted (written or not) — and every delimiter it inserts — must end where the inserts/erases put that boundary; free helpers taking the components record are simulated in place.",
            "typestate dataflow over editor CFGs with callee summaries + record/friend queries",
            "DESIGN.md §5 C07", "partial: shape of the editors, not the values"),
    "C13": ("other",
            "The premises from which the C++ memory model gives race freedom in every interleaving are decided as "
            "shape facts: publish-before-READY (dominance/post-dominance in ensure_tables), release/acquire orders on "
            "every operation of the state variable, single writer, every table reader reached only through call sites "
            "dominated by a successful readiness check (must-dataflow + call-graph propagation), atomic limit touched "
            "only by its accessors, and no other writable static state (writes through reference parameters "
            "included). One genuine defect is reported as a known finding (F19: a waiter whose spin budget runs out returns false while initialisation is still in progress).",
            "CFG dominance / must-dataflow of guard facts + who-writes and call-graph queries + parameter-mod summaries",
            "DESIGN.md §5 C13", "relies on the C++20 memory model's release/acquire guarantee"),
    "C19": ("other",
            "Decides the guards that keep the record invariants as must-precede and copy-agreement rules: credential/"
            "port setters mutate only behind !cannot_have_credentials_or_port(); the three state-override refusals and "
            "the default-port elision exist and agree in all four copies of parse_scheme<true>; set_host_or_hostname "
            "refusals are present and identical in both types; a port is stored only behind the default-port test / base "
            "copy / snapshot restore; every stored scheme was lower-cased or matched against the lower-case list. The "
            "invariants of all reachable objects (values) are not decided. Also: no refusal test in the scheme/host/port setters is statically dead; has_opaque_path is set to true only in the parser's opaque path state and otherwise copied from another record or cleared. Also: the pathname setter changes nothing before its opaque-path refusal.",
            "typestate (guard-before-mutation) + twin-skeleton agreement + who-writes queries + must-dataflow",
            "DESIGN.md §5 C19", "partial"),
    "C02": ("other",
            "Decides the structural clauses of C02: no throw and fenced std::regex use; every optional / expected / variant "
            "access dominated by its engagement fact (must-dataflow with callee promises); SIMD loads, 8-byte memcpy words, "
            "masked AVX-512 loads and copies into stack arrays inside their buffers by a dominating guard; a lexicographic "
            "ranking for the URL parser's state loop and a progress variant for 132 other loops. Out-of-bounds accesses in "
            "general, integer overflow, leaks, uninitialised reads and the loops without a recognised variant are not decided. Also: range-checked accessors behind a range test; look-ahead reads keep their guard; UTF-8 / Hangul sizing agrees with writing; std::regex is entered with unbounded strings (3 sites, known finding F20: stack overflow in libstdc++'s recursive matcher).",
            "must-dataflow of guard facts and of normalised comparison facts over per-function CFGs + natural-loop variant "
            "analysis + state-graph ranking + census queries",
            "DESIGN.md §5 C02", "partial"),
    "C18": ("other",
            "Decides the structural part of configuration independence: the SSE2 / SSSE3 kernels (also compiled under "
            "AVX-512) of find_next_host_delimiter(_special) and has_tabs_or_newline are decoded exactly (all 65536 byte "
            "pairs per 16-bit lane) and match the scalar path's set and the specification set, with the scan shape "
            "(stride loop, overlapping tail, reported index) checked; the set of functions whose body depends on the "
            "instruction set is exactly the decoded one; digit conversions are range-checked in every configuration; the "
            "AVX-512 IPv4 kernel converts through the shared checked converter; the AVX-512 IPv6 prefilter is pure, "
            "masked, reject-only and applied identically by both URL types; development-check-only statements are "
            "effect-free and no statement is release-only; the amalgamated distribution compiles identical bodies. "
            "Equality of outputs over all inputs, soundness of the IPv6 prefilter's rejections, and absence of firing "
            "assertions are not decided. Also: the asserted offset-consistency predicate rejects only decreasing chains; the AVX-512 IPv6 prefilter's thresholds are no tighter than the IPv6 grammar; an assertion about a string prefix/suffix is implied by the code in front of it.",
            "exact per-lane evaluation of vector kernels from AST facts + cross-configuration differencing of per-function "
            "facts + must-dataflow of range facts + effect queries",
            "DESIGN.md §5 C18", "partial"),
    "C17": ("other",
            "All 79 extern \"C\" functions: every dereference of the handle is dominated by its engagement check "
            "(must-dataflow over the CFG), the failed-handle exit returns the documented default, each wrapper calls "
            "the member of the same name and pairs data()/length() of one object, pointer/length parameters are "
            "paired, allocation/access/free types agree per handle, header (parsed as C) and implementation agree on "
            "signatures and struct layouts (ada_url_components field by field with ada::url_components). Also: no wrapper returns the address of local, static or thread-local storage or the data() of an owning local string. Also: a wrapper with a scalar result returns the wrapped member's result itself.",
            "must-dataflow of engagement facts + slot-consistency and type-agreement queries over resolved AST facts",
            "DESIGN.md §5 C17", "what remains is the behaviour of the wrapped C++ operations (other properties)"),
    "C08": ("other",
            "Decides the provenance of can_parse's verdict: every `true` comes from the size-checked parser or from "
            "the one argued exception; validation-only early returns sit only in states from which no failing construct "
            "is reachable in the full parser; base handled behind is_valid; the fast validator's accepted host bytes and "
            "its IPv4 deferral heuristic are computed symbolically and compared with the forbidden-domain table and "
            "is_ipv4's early-out. One genuine defect (F3, the 3x shortcut) is reported as a known finding. Equivalence "
            "of the scanner with the parser on all strings is not decided. Also: a size-checked parse against a base uses a base built by the storing instantiation; the fast validator defers tab/LF/CR in the host and port parts; its port check tests the port state's limits; its Punycode marker (reassembled from its chain of byte comparisons) is no more specific than the literal on which the host parsers leave for the IDNA conversion.",
            "return-provenance classification + state-graph reachability + must-dataflow + byte-domain abstract interpretation",
            "DESIGN.md §5 C08", "partial"),
    "C10": ("other",
            "Decides that the host kind is written together with the host on every path of every public entry "
            "(parser, fast path, host setters, parse_host; both URL types) by a typestate fixpoint with callee summaries, "
            "and that the IPv6 serializer keeps the first longest zero run. Found and fixed a genuine defect (host_type "
            "never reset / not inherited). IPv4/IPv6 arithmetic over all values is not decided. Also: the IPv4 number parser's radix dispatch and per-radix digit sets equal the Standard's; the IPv6 parsers of the two URL types are identical up to storage. Also: numeric limits of the address parsers, the IPv4 fast path, verify_dns_length and the IPv6 serializer as cuts/points of the integer line; required code-point refusals in both host parsers; the overlapping move of the pieces behind '::' counts down.",
            "typestate dataflow (pairing of two effects) with interprocedural summaries + comparison-form rule",
            "DESIGN.md §5 C10", "partial: pairing, not the value of the kind"),
    "C09": ("other",
            "Must-pass-through property decided on every CFG path: each success-capable exit of the parser (both URL "
            "types) and each success exit of the 24 setter bodies is behind the 'fits' edge of a size-vs-limit "
            "comparison with no growth-capable mutation in between; over-limit edges restore and fail; every limit "
            "comparison is strict; URLs are produced only through ada::parse. Found and fixed a genuine defect (four "
            "parser exits skipped the check).",
            "typestate dataflow (must-pass-through) with callee summaries + who-may-call + comparison-form census",
            "DESIGN.md §5 C09", "'behaves as with no limit when it fits' is decided only through the strict-comparison rule"),
    "C11": ("proof",
            "Exhaustive table proof: each of the seven percent-encode bitmaps is compared with the Standard's set for all "
            "256 byte values, the hex[] table, the decode tables and the hex-digit predicate are checked entry by entry, "
            "every encoder loop has the bit_at/hex/verbatim shape, and each component refers only to its own set. "
            "Value-level clause (decode inverts encode for every string) is not decided. Also: decoder arithmetic (look-ahead bound, weight 16, step 3) of both percent-decoders; a set referenced from an extracted helper is attributed to the component functions that call it.",
            "table algebra over clang-evaluated constexpr tables + AST/CFG shape rules + resolved-reference site map",
            "DESIGN.md §5 C11",
            "proof level applies to the R1/R2/R4 table obligations (finite, exhaustive); R3/R5/R6 are shape rules"),
}

NOT_APPLICABLE = {
    "C06": "needs the Unicode 17 IDNA/normalization/bidi data as oracle (not on disk; python's unicodedata is 14.0) and is a "
           "value-level algorithm equivalence over 1.1M code points and all strings: no shape-of-the-code clause to decide statically",
    "C16": "every clause relates the outputs of two executions on related inputs (equivalence classes, idempotence, round trip); "
           "no table, ordering, pairing or ownership fact whose breakage is necessary for a violation",
}

PENDING = {}   # id -> reason, for properties whose check is not built yet



# sentences added in the last rounds (appended to the text of the property's level)
EXTRA_TEXT = {
    "C05": " Also (P10, shared with C07.S8): the pathname setter removes an existing \"/.\" guard on every path before the new path is written.",
    "C07": " Also: clearing editors erase exactly the span of their component; the pathname setter removes an existing \"/.\" guard before the new path is written.",
    "C08": " Also: an invalid base makes can_parse false (a `return false` behind every parse of the base, reached only when it is not valid); the quantity bounded by limit/3 covers input and base.",
    "C17": " Also (D5): a wrapper that parses the base itself returns a failed result when the base does not parse.",
    "C13": " Also: the compare-exchange that elects the initialiser expects the constant kTablesUninit.",
    "C19": " Also: no refusal of the host setter depends on a condition its twin does not test.",
    "C01": " Also: verdict flags accumulated over a scanning loop are only narrowed / widened there; search/hash getters return the empty string for a null and for an empty component, the host getter appends the port on engagement alone.",
    "C02": " Also (M6): every string/string_view subscript whose index the dominating branch conditions (linear normal form, combined up to three at a time) bound against the size is bounded strictly; an inclusive bound is reported, unbounded ones are not decided.",
    "C03": " Also: port, query and fragment are set to null only in the setter's input.empty() arm; no refusal of the scheme parsers tests the raw input's scheme type where it is already known to be NOT_SPECIAL.",
    "C04": " Also: in the relative and relative-slash states the base's host text goes to a function with a path that leaves the url without authority (a null host stays null); getter empties shared with C01.",
    "C11": " Also (R10): the verbatim-prefix index of percent_encode(input, set, index) is the unmodified result of percent_encode_index on the same input and set.",
    "C12": " Also: effect summaries of reset/append/remove/sort/initialize on the pair list (reset discards on every path); split arithmetic of the urlencoded parser around the delimiter position; set() appends on every not-found path and compacts behind the overwritten pair; get_all leaves its loop only at the head.",
    "C15": " Also (T13): the constructor's default-port elision is controlled by an equality of strings on the port's text.",
}


def main():
    checks = []
    for pid in sorted(CLAIMED):
        cat, text, tech, ref, note = CLAIMED[pid]
        text = text + EXTRA_TEXT.get(pid, "")
        checks.append({
            "property_id": pid,
            "quick_cmd": "python3 /verif/check.py %s --tier quick" % pid,
            "thorough_cmd": "python3 /verif/check.py %s --tier thorough" % pid,
            "evidence_file": "/verif/evidence/%s.json" % pid,
            "replay_cmd_template": "python3 /verif/check.py --replay {path}",
            "engine": "adafacts",
            "level_claimed": {"category": cat, "text": text, "design_ref": ref},
            "level_note": note + "; " + NOTE,
            "technique": "static analysis: " + tech,
        })
    na = [{"property_id": k, "reason": v} for k, v in sorted(NOT_APPLICABLE.items())]
    na += [{"property_id": k, "reason": v} for k, v in sorted(PENDING.items())]
    m = {
        "version": 1,
        "setup_cmd": "sh /verif/tools/build.sh",
        "hooks": {
            "guard": "ADA_URL_ADA_VERIF",
            "enable": "none needed: the checks analyse /repo's sources as they are (no instrumentation); the guard name is reserved",
            "baseline_off_cmd": "sh /verif/tools/repo_tests.sh",
            "source_commits": [],
            "add_only": True,
        },
        "engines": [{
            "name": "adafacts",
            "path": "/verif/tools/adafacts.cc",
            "serves_properties": sorted(CLAIMED),
            "kind_free_text": "libTooling (clang 14) fact extractor: per-instantiation CFGs with resolved callees, "
                              "clang-evaluated constexpr tables, records/enums/globals; rules in /verif/rules/*.py "
                              "(dataflow/typestate, table algebra, who-may-call, twin skeletons, slot consistency)",
        }],
        "checks": checks,
        "not_applicable": na,
        "notes": "Technique family: static analysis only. Every verdict is computed from /repo's current source on each run "
                 "(extraction is cached by content hash of src/, include/, singleheader/). See DESIGN.md.",
    }
    with open(os.path.join(HERE, "MANIFEST.json"), "w") as f:
        json.dump(m, f, indent=1)
        f.write("\n")


if __name__ == "__main__":
    main()
