#!/usr/bin/env python3
"""Regenerates /verif/MANIFEST.json from the table below (single source of truth)."""
import json
import os

HERE = os.path.dirname(os.path.dirname(os.path.abspath(__file__)))

NOTE = ("trusted base: clang 14 front end + constant evaluator, /verif/tools/adafacts.cc, /verif/lib, "
        "/verif/spec/whatwg.py; exit 2 = analysis broken (anchor or idiom not found), never a pass")

CLAIMED = {
    # id: (category, text, technique, design_ref, extra level_note)
    "C01": ("other",
            "Decides the table/shortcut clauses of the property exhaustively: byte-domain abstract interpretation of the "
            "fast path's four scanning loops shows every byte it copies verbatim is a byte the general parser leaves "
            "unchanged; path-signature, forbidden host/domain, scheme-character, delimiter and special-scheme tables "
            "(incl. the perfect hash) equal the Standard's sets for all 256 bytes; the parser's state switch is "
            "exhaustive. The transition logic for every string is a value-level matter and is not decided.",
            "table algebra + byte-domain abstract interpretation of scanning loops + CFG state-machine graph",
            "DESIGN.md §5 C01", "partial: table/shortcut agreement only"),
    "C03": ("other",
            "Decides failure atomicity as a path property: a typestate fixpoint over the CFG of each of the 24 setter "
            "bodies (callee effects from summaries of their own CFGs, restores modelled exactly, boolean results "
            "tracked) shows every exit that reports failure is reached with every written field restored. That a "
            "successful setter produces the Standard's state is value-level and not decided.",
            "typestate dataflow over per-instantiation CFGs with interprocedural summaries",
            "DESIGN.md §5 C03", "partial: the 'fails atomically' sentence"),
    "C09": ("other",
            "Must-pass-through property decided on every CFG path: each success-capable exit of the parser (both URL "
            "types) and each success exit of the 24 setter bodies is behind the 'fits' edge of a size-vs-limit "
            "comparison with no growth-capable mutation in between; over-limit edges restore and fail; every limit "
            "comparison is strict; URLs are produced only through ada::parse. Found and fixed a genuine defect (four "
            "parser exits skipped the check).",
            "typestate dataflow (must-pass-through) with callee summaries + who-may-call + comparison-form census",
            "DESIGN.md §5 C09", "'behaves as with no limit when it fits' is decided only through the strict-comparison rule"),
    "C11": ("proof",
            "Exhaustive table proof: each of the seven percent-encode bitmaps is compared with the Standard's set for all "
            "256 byte values, the hex[] table, the decode tables and the hex-digit predicate are checked entry by entry, "
            "every encoder loop has the bit_at/hex/verbatim shape, and each component refers only to its own set. "
            "Value-level clause (decode inverts encode for every string) is not decided.",
            "table algebra over clang-evaluated constexpr tables + AST/CFG shape rules + resolved-reference site map",
            "DESIGN.md §5 C11",
            "proof level applies to the R1/R2/R4 table obligations (finite, exhaustive); R3/R5/R6 are shape rules"),
}

NOT_APPLICABLE = {
    "C06": "needs the Unicode 17 IDNA/normalization/bidi data as oracle (not on disk; python's unicodedata is 14.0) and is a "
           "value-level algorithm equivalence over 1.1M code points and all strings: no shape-of-the-code clause to decide statically",
    "C16": "every clause relates the outputs of two executions on related inputs (equivalence classes, idempotence, round trip); "
           "no table, ordering, pairing or ownership fact whose breakage is necessary for a violation",
}

PENDING = {'C02': 'check not built yet in this round (see DESIGN.md §11 build order); not claimed until it is', 'C04': 'check not built yet in this round (see DESIGN.md §11 build order); not claimed until it is', 'C05': 'check not built yet in this round (see DESIGN.md §11 build order); not claimed until it is', 'C07': 'check not built yet in this round (see DESIGN.md §11 build order); not claimed until it is', 'C08': 'check not built yet in this round (see DESIGN.md §11 build order); not claimed until it is', 'C10': 'check not built yet in this round (see DESIGN.md §11 build order); not claimed until it is', 'C12': 'check not built yet in this round (see DESIGN.md §11 build order); not claimed until it is', 'C13': 'check not built yet in this round (see DESIGN.md §11 build order); not claimed until it is', 'C14': 'check not built yet in this round (see DESIGN.md §11 build order); not claimed until it is', 'C15': 'check not built yet in this round (see DESIGN.md §11 build order); not claimed until it is', 'C17': 'check not built yet in this round (see DESIGN.md §11 build order); not claimed until it is', 'C18': 'check not built yet in this round (see DESIGN.md §11 build order); not claimed until it is', 'C19': 'check not built yet in this round (see DESIGN.md §11 build order); not claimed until it is'}   # id -> reason, for properties whose check is not built yet


def main():
    checks = []
    for pid in sorted(CLAIMED):
        cat, text, tech, ref, note = CLAIMED[pid]
        checks.append({
            "property_id": pid,
            "quick_cmd": "python3 /verif/check.py %s --tier quick" % pid,
            "thorough_cmd": "python3 /verif/check.py %s --tier thorough" % pid,
            "evidence_file": "/verif/evidence/%s.json" % pid,
            "replay_cmd_template": "python3 /verif/check.py --replay {path}",
            "engine": "adafacts",
            "level_claimed": {"category": cat, "text": text, "design_ref": ref},
            "level_note": note + "; " + NOTE,
            "technique": "static analysis: " + tech,
        })
    na = [{"property_id": k, "reason": v} for k, v in sorted(NOT_APPLICABLE.items())]
    na += [{"property_id": k, "reason": v} for k, v in sorted(PENDING.items())]
    m = {
        "version": 1,
        "setup_cmd": "sh /verif/tools/build.sh",
        "hooks": {
            "guard": "ADA_URL_ADA_VERIF",
            "enable": "none needed: the checks analyse /repo's sources as they are (no instrumentation); the guard name is reserved",
            "baseline_off_cmd": "cmake --build /repo/_build -j16 && ctest --test-dir /repo/_build -j8 --timeout 900",
            "source_commits": [],
            "add_only": True,
        },
        "engines": [{
            "name": "adafacts",
            "path": "/verif/tools/adafacts.cc",
            "serves_properties": sorted(CLAIMED),
            "kind_free_text": "libTooling (clang 14) fact extractor: per-instantiation CFGs with resolved callees, "
                              "clang-evaluated constexpr tables, records/enums/globals; rules in /verif/rules/*.py "
                              "(dataflow/typestate, table algebra, who-may-call, twin skeletons, slot consistency)",
        }],
        "checks": checks,
        "not_applicable": na,
        "notes": "Technique family: static analysis only. Every verdict is computed from /repo's current source on each run "
                 "(extraction is cached by content hash of src/, include/, singleheader/). See DESIGN.md.",
    }
    with open(os.path.join(HERE, "MANIFEST.json"), "w") as f:
        json.dump(m, f, indent=1)
        f.write("\n")


if __name__ == "__main__":
    main()
