#!/bin/sh
# all_seeds_scratch.sh [-jN] : every seeded change under /verif/seeded against the quick check of its property, each applied to
# its own scratch export of /repo's HEAD (outside /repo and /verif, removed afterwards) -- unlike all_seeds.sh it never touches
# /repo, so it can run next to other work.  Prints `caught|MISSED(rc)|NOAPPLY <seed> <property> <first rule>`.
J=${1:--j6}; J=${J#-j}
HERE=$(cd "$(dirname "$0")/.." && pwd)
export HERE
ls -d $HERE/seeded/[A-Z]*/ | xargs -P $J -I{} sh -c '
d={}; n=$(basename $d)
p=$(python3 -c "import json;m=json.load(open(\"$d/meta.json\"));print(m.get(\"checked_under\",m[\"property\"]))")
T=$(mktemp -d /tmp/ada_sd_XXXXXX); git -C /repo archive HEAD | tar -x -C $T
if (cd $T && patch -p1 -s < $d/patch.diff >/dev/null 2>&1); then
  VERIF_REPO=$T VERIF_NO_EVIDENCE=1 python3 $HERE/check.py $p --tier quick > $T/out.txt 2>&1; rc=$?
  r=$(grep -E "^  rule  " $T/out.txt | head -1 | cut -c1-70)
  if [ $rc -eq 1 ]; then echo "caught $n $p $r"; else echo "MISSED($rc) $n $p"; fi
else echo "NOAPPLY $n $p"; fi
rm -rf $T'
